#!/usr/bin/env python3
"""Regenerates /verif/MANIFEST.json from the table below (single source of truth)."""
import json

TEXTS = {
 "C07": ("bounded-exhaustive enumeration of strings over the marker alphabet on the real Redact/StripMarkers vs a scanner-based reference model; all pairs of short well-formed redactables for the concatenation laws",
         "Every string of <=6 (quick) / <=8 (thorough) tokens over {a,start,end,cross,LF,E2,80,B9} is pushed through both variants of Redact/StripMarkers/ToBytes/ToString and compared with an independent byte scanner; well-formed redactables up to 8/10 grammar tokens and all ordered pairs up to 4/5 tokens each for the homomorphism laws. Complete within the bound.",
         "Alphabet argument: the operations distinguish only the classes that are tokens. Outputs of the other checks are covered by their own Redact-based oracles (C02/C03/C10).", "5/C07"),
 "C09": ("bounded-exhaustive enumeration of SafeWriter call sequences on 8 real implementations in lock-step with a list-of-segments reference model, plus explicit-state breadth-first search over concrete buffer states with step-local invariants",
         "All call sequences up to depth 3 (quick) / 4 (thorough) over an ~90-op alphabet (and depth 2 over the ~400-op full alphabet) run on StringBuilder, ManualBuffer, the Sprintfn printer, the SafeFormat printer, the Formatter->SafePrinter route, the error-hook route and two surrounding contexts; both C09 equalities, well-formedness, line-safety and cross-implementation agreement up to envelope merging are checked on each; a breadth-first search over canonical Buffer states (read through a hook) checks the step form of the equalities on every transition.",
         "Payloads are at most 2 alphabet symbols plus long symbols crossing the 64-byte allocation; state search is depth-bounded (not closed) with pending bytes capped at 4; canonical key argument in DESIGN.md.", "5/C09"),
 "C10": ("bounded-exhaustive enumeration of byte strings x offsets x settings on the real escape routine vs an append-only reference model; all write-splits on the real ManualBuffer",
         "Every byte string over an 8-symbol marker-aware alphabet up to length 6 (quick) / 8 (thorough), at every start offset and both line-split settings, is run through the real scanner and compared with a 25-line append-only model; EscapeMarkers/EscapeBytes clauses and all 2^(n-1) write splits are checked on the same space. Complete within the bound, no sampling.",
         "Strings longer than the bound only through the systematic length-70 family; bytes outside the alphabet behave like 'a' for the scanner (it compares against the two 3-byte markers and LF only). Reference model and oracles are trusted.", "5/C10"),
 "C11": ("exhaustive enumeration of whole parameter domains (all runes, all bytes, all short format strings, all reflect kinds) and of panic positions in scripted user methods, on the real code",
         "Every rune in [-2,0x110001] (quick: [-2,0x3000) + all surrogates + boundaries) and every byte through every rune/byte writer of 6 implementations in 4 buffer states; every format of <=3/4 tokens and all 1-2 byte formats with 5 argument lists; JoinTo with operands of every kind x 3 writers x 3 delimiters; SafeFormat/Format bodies of <=2/3 ops panicking at every position with 6 payload kinds at 3 nesting levels, and panicking String/Error/GoString/SafeMessage methods: no panic escapes, earlier output is preserved, the report text and the unsafe classification of the payload are exact.",
         "Memory exhaustion, Grow(<0), nil writers/receivers are outside the claim as the property says. Double panics are compared with fmt in C04.", "5/C11"),
 "C13": ("explicit-state breadth-first search over concrete buffer states applying every accessor/reset at every state, plus exhaustive insertion of accessors/resets at every position of every bounded call sequence",
         "At every canonical buffer state reached within the depth bound every accessor is applied and the hidden state compared before/after (hook), all one-step futures compared with the accessor-free run, Len compared with RedactableString; every reset is followed by all one/two-step futures compared with a new object, and strings handed out earlier are re-compared after writes into the same storage. The same insertions are made at every position of every StringBuilder call sequence up to depth 2/3.",
         "RedactableBytes results are not claimed immutable. State search is depth-bounded.", "5/C13"),
 "C14": ("complete enumeration of the finite directive product under both printers, round-tripping through MakeFormat",
         "The whole product 32 flag subsets x 8 widths x 6 precisions x 58 verbs is executed under fmt's State and redact's printer (Formatter and SafeFormatter entry); state after re-printing with the reproduced format must equal the original state; MakeFormat is compared with fmt.FormatString; Safe/Unsafe/forwarder fidelity under fmt for 19 operands x the product. Exhaustive in both tiers (quick thins widths/precisions for the operand product only).",
         "The reference is this sandbox's fmt (Go 1.23.5).", "5/C14"),
}
CLAIMED_IDS = ["C07", "C09", "C10", "C11", "C13", "C14"]
CLAIMED = {k: TEXTS[k] for k in CLAIMED_IDS}

PENDING = {}
ALL = ["C%02d" % i for i in range(1, 18)]

checks = []
for pid in ALL:
    if pid not in CLAIMED:
        continue
    tech, text, note, ref = CLAIMED[pid]
    checks.append({
        "property_id": pid,
        "quick_cmd": "./check %s quick" % pid,
        "thorough_cmd": "./check %s thorough" % pid,
        "evidence_file": "/verif/evidence/%s.json" % pid,
        "replay_cmd_template": "./check %s quick --replay {path}" % pid,
        "engine": "verifh",
        "level_claimed": {"category": "model_checking", "text": text, "design_ref": "DESIGN.md section " + ref},
        "level_note": note,
        "technique": tech,
    })

na = [{"property_id": p, "reason": PENDING.get(p, "check not built yet in this session (work in progress; planned per DESIGN.md section 5)")} for p in ALL if p not in CLAIMED]

m = {
 "version": 1,
 "setup_cmd": "./setup.sh",
 "hooks": {
  "guard": "verif",
  "enable": "hooks are NOT committed to /repo: ./check generates a `go build -tags verif -overlay` file set from /verif/hooks (added files internal/buffer/verif_hooks.go, internal/rfmt/verif_hooks.go, virtual package internal/vsync) plus two anchored one-line rewrites of the CURRENT print.go (import \"sync\" -> internal/vsync) and buffer.go (yield point in startWrite); the repository tree is never modified",
  "baseline_off_cmd": "cd /repo && GOFLAGS=-mod=mod go test -vet=off -count=1 ./...",
  "source_commits": [],
  "add_only": True,
 },
 "engines": [
  {"name": "verifh", "path": "/verif/harness", "serves_properties": sorted(CLAIMED), "kind_free_text": "hand-written bounded-exhaustive explorer in Go running the real library code: string/operation-sequence/directive-product enumeration, explicit-state search over buffer states, choice-sequence DFS over pool answers and thread schedules under a cooperative scheduler"},
 ],
 "checks": checks,
 "not_applicable": na,
 "notes": "All checks rebuild the harness against /repo's working tree on every invocation (./check). Known findings live in /verif/KNOWN_FINDINGS.txt.",
}
json.dump(m, open("/verif/MANIFEST.json", "w"), indent=1)
print("claimed:", sorted(CLAIMED), "not_applicable:", [x["property_id"] for x in na])

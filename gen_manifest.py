#!/usr/bin/env python3
"""Regenerates /verif/MANIFEST.json from the table below (single source of truth)."""
import json

CLAIMED = {
 # id: (technique, level text, level note, design_ref)
 "C10": ("bounded-exhaustive enumeration of byte strings x offsets x settings on the real escape routine vs an append-only reference model; all write-splits on the real ManualBuffer",
         "Every byte string over an 8-symbol marker-aware alphabet up to length 6 (quick) / 8 (thorough), at every start offset and both line-split settings, is run through the real scanner and compared with a 25-line append-only model; EscapeMarkers/EscapeBytes clauses and all 2^(n-1) write splits are checked on the same space. Complete within the bound, no sampling.",
         "Strings longer than the bound only through the systematic length-70 family; bytes outside the alphabet behave like 'a' for the scanner (it compares against the two 3-byte markers and LF only). Reference model and oracles are trusted.",
         "5/C10"),
}

PENDING = {}
ALL = ["C%02d" % i for i in range(1, 18)]

checks = []
for pid in ALL:
    if pid not in CLAIMED:
        continue
    tech, text, note, ref = CLAIMED[pid]
    checks.append({
        "property_id": pid,
        "quick_cmd": "./check %s quick" % pid,
        "thorough_cmd": "./check %s thorough" % pid,
        "evidence_file": "/verif/evidence/%s.json" % pid,
        "replay_cmd_template": "./check %s quick --replay {path}" % pid,
        "engine": "verifh",
        "level_claimed": {"category": "model_checking", "text": text, "design_ref": "DESIGN.md section " + ref},
        "level_note": note,
        "technique": tech,
    })

na = [{"property_id": p, "reason": PENDING.get(p, "check not built yet in this session (work in progress; planned per DESIGN.md section 5)")} for p in ALL if p not in CLAIMED]

m = {
 "version": 1,
 "setup_cmd": "./setup.sh",
 "hooks": {
  "guard": "verif",
  "enable": "hooks are NOT committed to /repo: ./check generates a `go build -tags verif -overlay` file set from /verif/hooks (added files internal/buffer/verif_hooks.go, internal/rfmt/verif_hooks.go, virtual package internal/vsync) plus two anchored one-line rewrites of the CURRENT print.go (import \"sync\" -> internal/vsync) and buffer.go (yield point in startWrite); the repository tree is never modified",
  "baseline_off_cmd": "cd /repo && GOFLAGS=-mod=mod go test -vet=off -count=1 ./...",
  "source_commits": [],
  "add_only": True,
 },
 "engines": [
  {"name": "verifh", "path": "/verif/harness", "serves_properties": sorted(CLAIMED), "kind_free_text": "hand-written bounded-exhaustive explorer in Go running the real library code: string/operation-sequence/directive-product enumeration, explicit-state search over buffer states, choice-sequence DFS over pool answers and thread schedules under a cooperative scheduler"},
 ],
 "checks": checks,
 "not_applicable": na,
 "notes": "All checks rebuild the harness against /repo's working tree on every invocation (./check). Known findings live in /verif/KNOWN_FINDINGS.txt.",
}
json.dump(m, open("/verif/MANIFEST.json", "w"), indent=1)
print("claimed:", sorted(CLAIMED), "not_applicable:", [x["property_id"] for x in na])

#!/usr/bin/env python3
"""Regenerates /verif/MANIFEST.json from the table below (single source of truth)."""
import json

TEXTS = {
 "C12": ("explicit-state breadth-first search over pool contents with a controllable pool (every history x every answer sync.Pool may give), plus stateless choice-sequence DFS over thread schedules and pool answers under a hand-written cooperative scheduler with an iterated deviation bound; auxiliary free-running -race pass",
         "print.go's sync.Pool is replaced (build-time overlay) by a pool whose Get may return ANY pooled printer or a new one - the most general behaviour sync.Pool's contract allows - with the explorer owning the choice. (a) All histories of <=2 (quick) / <=3 (thorough) calls over a 35-call alphabet (every entry point and abnormal path: caught and propagating panics, %w capture and misuse, overrides, nested printers, leaked printers, >64KiB output, re-entrant Stringers) x every answer at every Get, de-duplicated on the dumped pool state; every call is a probe compared with its cold-pool result and every returned string is re-compared at the end (aliasing). (b) 2-3 threads x 1-2 calls under a cooperative scheduler with points at pool Get/Put, every buffer write and inside user methods; all executions with at most 0, 1, 2 deviations (preemptions + non-default pool answers). Every violation is replayed once more and must fail identically before it is reported.",
         "Pool bounded at 3 objects. Interleavings are explored only at the scheduler's points; that nothing unsynchronised happens between them is only sampled by the separately built -race pass (16 free-running goroutines, real sync.Pool), which is auxiliary evidence and not part of the exhaustive claim. Cold-pool references are computed in the same process with an always-new pool.", "5/C12"),
 "C17": ("exhaustive enumeration of three process-wide hook configurations x error values x positions x directives, differential against an equivalent SafeFormatter proxy and against the no-hook configuration",
         "Configurations {no hook, rendering hook, panicking hook} x 9 error values (plain, wrapping, nil-receiver, +Stringer, +Formatter, errors.New, pointer receiver, +SafeFormatter, +SafeMessager) x 15 positions (top level, %w via HelperForErrorf, exported/unexported field, []error, []interface{}, map value, interface field, Safe, Unsafe, pointer, reflect.Value, array, nested, Unsafe(struct)) x quick (5k) / thorough (37k) directives: where dispatch happens the output must equal that of a SafeFormatter proxy doing exactly what the hook does (same verb, safe/unsafe calls honoured, nothing else printed); elsewhere it must equal the no-hook output; a panicking hook is contained like a panicking SafeFormat.",
         "The hook is process-global; configurations are explored sequentially in one process and cleared through the public API.", "5/C17"),

 "C05": ("span-marking differential against fmt, bounded-exhaustive over leaves x classifications x shapes x directives x registry configurations",
         "On the fmt side every unsafe scalar leaf is replaced by a Formatter that brackets its rendering with marker bytes and forwards the active directive; deleting the bracketed spans (keeping line feeds) gives the expected text outside envelopes, without any hand-written format parser. Enumerated: ~50 leaf variants (12 scalars and a Stringer x unsafe / Safe() / SafeValue type / registered type / Unsafe(SafeValue), a SafeFormatter, nil) alone over the quick directive space, in ordered pairs inside 8 container shapes (incl. containers wrapped in Safe()) and as two top-level operands, under 2 (quick) / all 8 (thorough) registry configurations (registry reset through a hook).",
         "Directives are kept only when fmt reports no %! for the operands (the property says 'verbs valid for their operands'); []byte, complex and pointers are composites left to C02/C04.", "5/C05"),
 "C06": ("bounded-exhaustive enumeration of values x wrapper words x directives and of scripted re-entrant formatting methods under wrappers, with an envelope-coverage oracle and character comparison against fmt",
         "Every value of the universe (~130) under every wrapper word of length <=2 (quick) / <=3 (thorough) over {Safe, Unsafe} x mid/quick directive space: outermost Unsafe => the whole rendering lies inside envelopes; outermost Safe and no own classification => no marker at all; characters equal fmt's for the bare value. Every Format/SafeFormat/hook body of <=2/3 ops over 10 ops (Safe*/Unsafe*/Write/Fprintf on the state/re-entrant Print and Printf with safe and unsafe operands/nested SafeFormatter/panic) x 3 routes x all 14 wrapper words x 6 verbs. Repeated with an error hook installed.",
         "Safe() clause is not applied to values with panicking methods (C11 makes the payload unsafe) nor to bodies that print a RedactableString (own classification).", "5/C06"),
 "C08": ("bounded-exhaustive enumeration of library-produced redactables x directives x holder shapes with identity / homomorphism oracles, and of Join/Sprintf lists with the concatenation laws",
         "13 redactables obtained from the library by up to two rounds of printing/joining (envelopes, LF, escaped markers, empty, guard) x quick/full directives (minus %T,%p) x 14 holder shapes x {string, bytes}: top level must be the identity; inside a holder the output must equal the output for a marker-free placeholder with the redactable substituted. Sprint(Sprint(a))==Sprint(a) for 3 rounds over universe singles and pairs; Join/JoinTo(StringBuilder, printer)/Sprintf over all lists of <=3 x 3 delimiters equal plain concatenation and Redact/StripMarkers distribute.",
         "Deeper print/join histories are represented by the 3-round fixpoint check.", "5/C08"),

 "C01": ("bounded-exhaustive enumeration of every producer of redactable text on the real code (call sequences on 8 implementations, explicit-state search over buffer states, 5 formatting entry points on directive x value products, format programs, all short byte strings, Join lists) with a byte-scanner well-formedness oracle on every output",
         "Every string produced in the explored spaces is scanned by an independent byte-level automaton: markers strictly alternate, and after deleting the library's delimiters no marker remains (data can neither forge nor re-assemble one). Spaces: all SafeWriter call sequences to depth 3 (incl. invalid runes/bytes) on 8 implementations; breadth-first search over canonical buffer states; quick 5k / thorough ~37k directives x ~130 values x 2 instantiations x 5 entry points; all formats of <=3/4 tokens and all 1-2 byte formats; all byte strings to length 5/7 through 11 producers; all Join lists of <=3 over 9 redactables x 3 delimiters.",
         "Values outside the universe and payloads longer than the alphabets' symbols are not explored; the argument that the alphabets suffice is per mechanism (DESIGN section 4).", "5/C01"),
 "C02": ("two-run (hyper-property) bounded-exhaustive comparison: every cell of directive x value, format program x argument list, directive pair x value pair and Sprint operand list executed with both instantiations of the unsafe leaves, Redact() results compared byte for byte",
         "Non-interference is checked as a two-run property over complete finite products: quick 5k / thorough 89k directives x ~130 value generators; all formats of <=3/4 tokens x 7 argument lists; 648^2 directive pairs x value pairs; all Sprint lists of <=3 over 20 values; repeated with an error hook installed. Public parts (literals, Safe(), SafeValue, star operands) are shared by both runs.",
         "Two instantiations per leaf (differing in every byte, sign, case). Known finding K3 (SafeMessager + bad verb) is listed in KNOWN_FINDINGS.txt and reported as KNOWN-FINDING.", "5/C02"),
 "C03": ("the producer spaces of C01 with the line oracle on every produced string",
         "Same enumeration as C01; oracle: no line feed between a start marker and its end marker, every line of the output well-formed alone, and Redact/StripMarkers applied line by line equal to the whole.",
         "As C01.", "5/C03"),
 "C04": ("differential bounded-exhaustive enumeration against the standard fmt package on the same value objects",
         "strip(redact.Sprintf(f,a...)) == escape(fmt.Sprintf(f,a...)) and panics-iff over: quick 5k / thorough 89k directives x ~105 fmt-compatible values; all format programs of <=3/4 tokens x 6 argument lists; all 648^2 ordered pairs of mid-size directives; all Sprint operand lists of <=3; the Fprint/Fprintf variants must deliver the same bytes in one write.",
         "Reference is this sandbox's fmt (go1.23.5). Excluded as the property says: %w, zero flag meeting minus; plus width/precision on composites whose element panics before further elements (Go>=1.21 catchPanic drift, DESIGN 5/C04). Invalid-UTF-8 outputs are compared modulo the '?' guards.", "5/C04"),
 "C15": ("bounded-exhaustive enumeration of HelperForErrorf formats x operand lists x preceding calls; the operand consumed by each %w is obtained from fmt itself run with sentinel operands",
         "All formats of <=3/4 tokens over 13 directive tokens (%w with flags, widths, explicit indexes, star) x all operand lists of length 0-3 over 11 operand kinds, after 6 kinds of preceding call: returned error, text (= Sprintf with at most one correctly used %w rendered like %v) and agreement with fmt.Errorf's message/Unwrap for <=1 %w.",
         "Known finding K2 listed in KNOWN_FINDINGS.txt. reflect.Value operands and misused %+w are compared leniently (fmt release drift).", "5/C15"),
 "C16": ("bounded-exhaustive route comparison: every argument list / (format, arguments) through all print-style and printf-style routes on the real code",
         "Sprint vs Fprint (4 writer behaviours: accept, short 0, short half, fail) byte-identical, exactly one Write, (n, err) passed through; StringBuilder, Sprintfn-printer and SafeFormat-printer routes after 6 outer-buffer prefixes equal to prefix+Sprint up to merging of adjacent envelopes. Lists: all singles and pairs with 20 pair values over ~130 values, triples over 20 values; mid/quick directives x universe; all formats of <=3 tokens x 6 argument lists.",
         "The S variant is the reference text.", "5/C16"),

 "C07": ("bounded-exhaustive enumeration of strings over the marker alphabet on the real Redact/StripMarkers vs a scanner-based reference model; all pairs of short well-formed redactables for the concatenation laws",
         "Every string of <=6 (quick) / <=8 (thorough) tokens over {a,start,end,cross,LF,E2,80,B9} is pushed through both variants of Redact/StripMarkers/ToBytes/ToString and compared with an independent byte scanner; well-formed redactables up to 8/10 grammar tokens and all ordered pairs up to 4/5 tokens each for the homomorphism laws. Complete within the bound.",
         "Alphabet argument: the operations distinguish only the classes that are tokens. Outputs of the other checks are covered by their own Redact-based oracles (C02/C03/C10).", "5/C07"),
 "C09": ("bounded-exhaustive enumeration of SafeWriter call sequences on 8 real implementations in lock-step with a list-of-segments reference model, plus explicit-state breadth-first search over concrete buffer states with step-local invariants",
         "All call sequences up to depth 3 (quick) / 4 (thorough) over an ~90-op alphabet (and depth 2 over the ~400-op full alphabet) run on StringBuilder, ManualBuffer, the Sprintfn printer, the SafeFormat printer, the Formatter->SafePrinter route, the error-hook route and two surrounding contexts; both C09 equalities, well-formedness, line-safety and cross-implementation agreement up to envelope merging are checked on each; a breadth-first search over canonical Buffer states (read through a hook) checks the step form of the equalities on every transition.",
         "Payloads are at most 2 alphabet symbols plus long symbols crossing the 64-byte allocation; state search is depth-bounded (not closed) with pending bytes capped at 4; canonical key argument in DESIGN.md.", "5/C09"),
 "C10": ("bounded-exhaustive enumeration of byte strings x offsets x settings on the real escape routine vs an append-only reference model; all write-splits on the real ManualBuffer",
         "Every byte string over an 8-symbol marker-aware alphabet up to length 6 (quick) / 8 (thorough), at every start offset and both line-split settings, is run through the real scanner and compared with a 25-line append-only model; EscapeMarkers/EscapeBytes clauses and all 2^(n-1) write splits are checked on the same space. Complete within the bound, no sampling.",
         "Strings longer than the bound only through the systematic length-70 family; bytes outside the alphabet behave like 'a' for the scanner (it compares against the two 3-byte markers and LF only). Reference model and oracles are trusted.", "5/C10"),
 "C11": ("exhaustive enumeration of whole parameter domains (all runes, all bytes, all short format strings, all reflect kinds) and of panic positions in scripted user methods, on the real code",
         "Every rune in [-2,0x110001] (quick: [-2,0x3000) + all surrogates + boundaries) and every byte through every rune/byte writer of 6 implementations in 4 buffer states; every format of <=3/4 tokens and all 1-2 byte formats with 5 argument lists; JoinTo with operands of every kind x 3 writers x 3 delimiters; SafeFormat/Format bodies of <=2/3 ops panicking at every position with 6 payload kinds at 3 nesting levels, and panicking String/Error/GoString/SafeMessage methods: no panic escapes, earlier output is preserved, the report text and the unsafe classification of the payload are exact.",
         "Memory exhaustion, Grow(<0), nil writers/receivers are outside the claim as the property says. Double panics are compared with fmt in C04.", "5/C11"),
 "C13": ("explicit-state breadth-first search over concrete buffer states applying every accessor/reset at every state, plus exhaustive insertion of accessors/resets at every position of every bounded call sequence",
         "At every canonical buffer state reached within the depth bound every accessor is applied and the hidden state compared before/after (hook), all one-step futures compared with the accessor-free run, Len compared with RedactableString; every reset is followed by all one/two-step futures compared with a new object, and strings handed out earlier are re-compared after writes into the same storage. The same insertions are made at every position of every StringBuilder call sequence up to depth 2/3.",
         "RedactableBytes results are not claimed immutable. State search is depth-bounded.", "5/C13"),
 "C14": ("complete enumeration of the finite directive product under both printers, round-tripping through MakeFormat",
         "The whole product 32 flag subsets x 8 widths x 6 precisions x 58 verbs is executed under fmt's State and redact's printer (Formatter and SafeFormatter entry); state after re-printing with the reproduced format must equal the original state; MakeFormat is compared with fmt.FormatString; Safe/Unsafe/forwarder fidelity under fmt for 19 operands x the product. Exhaustive in both tiers (quick thins widths/precisions for the operand product only).",
         "The reference is this sandbox's fmt (Go 1.23.5).", "5/C14"),
}

# sections added after the seeded rounds (appended to the level text of each check)
ADDED = {
 "C01": " Later additions: 2-/3-directive formats with explicit indexes and star widths; systematic size families (operand/directive counts, container sizes, widths, nesting, Join lists 0..70); StringBuilder calls as transitions of the buffer state search; re-entrant user methods and values longer than 64 bytes in the universe.",
 "C02": " Later additions: indexed multi-directive formats, adjacent directives without separator, size families 0..70, Formatter values writing through io.WriteString, re-entrant methods.",
 "C03": " Later additions: as C01.",
 "C04": " Later additions: 2-/3-directive formats with explicit indexes/star widths/precisions (per-directive parser state), adjacent directives followed by a line feed, size families 0..70 (operands, directives, slices, maps, string lengths, widths, nesting depth).",
 "C05": " Later additions: containers wrapped in Safe(), unsafe Formatter leaves (Fprintf and io.WriteString routes).",
 "C06": " Later additions: re-entrant and long values in the universe.",
 "C07": " Later additions: alphabet widened to U+FFFD, a 2-byte and a 4-byte rune, the runes adjacent to the markers (U+2038, U+203B) and byte 0xBA; all library outputs of directives x universe; result-aliasing oracle (byte-slice results kept and re-compared after later calls); accessor isolation (writing into the slices returned by Start/End/RedactedMarker must change nothing).",
 "C08": " Later additions: holders under a Safe override (Safe(container), SafeValue structs, SafeFormatters printing the redactable), Join/JoinTo list lengths 0..70.",
 "C09": " Later additions: the empty payload in the quick alphabet; StringBuilder calls (SafeByte/UnsafeByte/SafeRune/.../Print/Printf) as transitions of the state search with their own step invariants.",
 "C10": " Later additions: an extended alphabet with the neighbour bytes of every marker byte (0xB8, 0xBB, 0x81, 0xE1, 0xE3), other lead bytes and the cross; result-aliasing oracle.",
 "C11": " Later additions: every universe value x quick directives through 6 entry points (a call may panic only if fmt panics too); text AFTER a caught panic inside slices/structs/maps compared with a well-behaved element in the same place under 12 width/precision/flag directives.",
 "C12": " Later additions: 41 calls (SafeFormatter/SafeMessager/SafeValue types with and without Unsafe, re-entrant and yielding writers); histories of up to 2 (quick) / 3 (thorough) calls are explored WITHOUT merging on the pool state so that cross-call state kept outside the pool shows; thorough goes to 4 calls and deviation budget 3; a result that differs between two cold-pool runs is itself a violation.",
 "C13": " Later additions: StringBuilder calls in the state search.",
 "C14": " Later additions: the state a formatter sees must not depend on a preceding directive of the same format (8 preceding directives x the whole product) nor on preceding elements of the same operand (7 containers x the whole product), under fmt and under redact's printer.",
 "C15": " Later additions: a literal letter w token (so that '%%w' occurs), K2 class repaired.",
 "C16": " Later additions: a writer that formats with the library before consuming its input (mode 5 of the F-variant check).",
 "C17": " Later additions: error values of integer, string and slice kind; a multi-operand section (13 kinds of preceding operands/directives x errors x positions x 9 verbs).",
}

CLAIMED_IDS = ["C01", "C02", "C03", "C04", "C05", "C06", "C07", "C08", "C09", "C10", "C11", "C12", "C13", "C14", "C15", "C16", "C17"]
CLAIMED = {k: TEXTS[k] for k in CLAIMED_IDS}

PENDING = {}
ALL = ["C%02d" % i for i in range(1, 18)]

checks = []
for pid in ALL:
    if pid not in CLAIMED:
        continue
    tech, text, note, ref = CLAIMED[pid]
    checks.append({
        "property_id": pid,
        "quick_cmd": "./check %s quick" % pid,
        "thorough_cmd": "./check %s thorough" % pid,
        "evidence_file": "/verif/evidence/%s.json" % pid,
        "replay_cmd_template": "./check %s quick --replay {path}" % pid,
        "engine": "verifh",
        "level_claimed": {"category": "model_checking", "text": text + ADDED.get(pid, ""), "design_ref": "DESIGN.md section " + ref},
        "level_note": note,
        "technique": tech,
    })

na = [{"property_id": p, "reason": PENDING.get(p, "check not built yet in this session (work in progress; planned per DESIGN.md section 5)")} for p in ALL if p not in CLAIMED]

m = {
 "version": 1,
 "setup_cmd": "./setup.sh",
 "hooks": {
  "guard": "verif",
  "enable": "hooks are NOT committed to /repo: ./check generates a `go build -tags verif -overlay` file set from /verif/hooks (added files internal/buffer/verif_hooks.go, internal/rfmt/verif_hooks.go, virtual package internal/vsync) plus two anchored one-line rewrites of the CURRENT print.go (import \"sync\" -> internal/vsync) and buffer.go (yield point in startWrite); the repository tree is never modified",
  "baseline_off_cmd": "cd /repo && GOFLAGS=-mod=mod go test -vet=off -count=1 ./...",
  "source_commits": [],
  "add_only": True,
 },
 "engines": [
  {"name": "verifh", "path": "/verif/harness", "serves_properties": sorted(CLAIMED), "kind_free_text": "hand-written bounded-exhaustive explorer in Go running the real library code: string/operation-sequence/directive-product enumeration, explicit-state search over buffer states, choice-sequence DFS over pool answers and thread schedules under a cooperative scheduler"},
 ],
 "checks": checks,
 "not_applicable": na,
 "notes": "All checks rebuild the harness against /repo's working tree on every invocation (./check). Known findings live in /verif/KNOWN_FINDINGS.txt.",
}
json.dump(m, open("/verif/MANIFEST.json", "w"), indent=1)
print("claimed:", sorted(CLAIMED), "not_applicable:", [x["property_id"] for x in na])

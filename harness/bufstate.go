package main

import (
	"fmt"
	"strings"
	"sync"
	"unicode/utf8"

	redact "github.com/cockroachdb/redact"
	ifaces "github.com/cockroachdb/redact/interfaces"
	"github.com/cockroachdb/redact/internal/buffer"
)

// ---------------------------------------------------------------------------
// Explicit-state search over concrete Buffer states (engine E1b)
// ---------------------------------------------------------------------------

type bufOp struct {
	Name  string
	Apply func(b *buffer.Buffer)
	// reference contribution
	Kind  byte   // 'm' SetMode, 'w' write (class by current mode), 'g' Grow
	Text  []byte // payload for 'w'
	Valid bool
	Raw   bool // only enabled in raw mode (well-formed fragment); otherwise only in escaping modes
	Class byte // for Kind 'b' (StringBuilder call): 'S' safe, 'U' unsafe, 'R' raw fragment
}

func tailOf(b []byte, n int) []byte {
	if len(b) > n {
		return b[len(b)-n:]
	}
	return b
}

func bitLen(n int) int {
	k := 0
	for ; n > 0; n >>= 1 {
		k++
	}
	return k
}

func bufOps() []bufOp {
	var ops []bufOp
	for m, n := range []string{"UnsafeEscaped", "SafeEscaped", "SafeRaw"} {
		m := m
		ops = append(ops, bufOp{Name: "SetMode(" + n + ")", Kind: 'm', Apply: func(b *buffer.Buffer) { b.SetMode(buffer.OutputMode(m)) }})
	}
	for _, p := range append(append([]string{}, alphaB...), mStart, mEnd, "é", "x\ny") {
		p := p
		ops = append(ops, bufOp{Name: "WriteString(" + q(p) + ")", Kind: 'w', Text: []byte(p), Valid: utf8.ValidString(p), Apply: func(b *buffer.Buffer) { b.WriteString(p) }})
	}
	for _, p := range []string{"a", "\n", "\xe2", mStart} {
		p := p
		ops = append(ops, bufOp{Name: "Write(" + q(p) + ")", Kind: 'w', Text: []byte(p), Valid: utf8.ValidString(p), Apply: func(b *buffer.Buffer) { b.Write([]byte(p)) }})
	}
	for _, x := range bytesQ {
		x := x
		ops = append(ops, bufOp{Name: fmt.Sprintf("WriteByte(0x%02x)", x), Kind: 'w', Text: []byte{x}, Valid: x < 0x80, Apply: func(b *buffer.Buffer) { b.WriteByte(x) }})
	}
	for _, r := range runesQ {
		r := r
		ops = append(ops, bufOp{Name: fmt.Sprintf("WriteRune(%#x)", r), Kind: 'w', Text: []byte(string(r)), Valid: true, Apply: func(b *buffer.Buffer) { b.WriteRune(r) }})
	}
	for _, p := range []string{"t", mStart + "u" + mEnd, mRed, mStart + "u" + mEnd + "\n" + mStart + "v" + mEnd, ""} {
		p := p
		ops = append(ops, bufOp{Name: "raw WriteString(" + q(p) + ")", Kind: 'w', Raw: true, Text: []byte(p), Valid: true, Apply: func(b *buffer.Buffer) { b.WriteString(p) }})
	}
	ops = append(ops, bufOp{Name: "Grow(3)", Kind: 'g', Apply: func(b *buffer.Buffer) { b.Grow(3) }})
	// a generous reservation and a Reset that keeps the storage: both leave much more capacity than content
	ops = append(ops, bufOp{Name: "Grow(300)", Kind: 'g', Apply: func(b *buffer.Buffer) { b.Grow(300) }})
	ops = append(ops, bufOp{Name: "Reset", Kind: 'z', Apply: func(b *buffer.Buffer) { b.Reset() }})
	// taking the content out and using the object again (every way of emptying must leave the same fresh buffer)
	ops = append(ops, bufOp{Name: "TakeRedactableString", Kind: 'z', Apply: func(b *buffer.Buffer) { _ = b.TakeRedactableString() }})
	ops = append(ops, bufOp{Name: "TakeRedactableBytes", Kind: 'z', Apply: func(b *buffer.Buffer) { _ = b.TakeRedactableBytes() }})
	// fill an EMPTY buffer up to 60 safe bytes (already escaped), so that the following levels work at the edge of
	// the first 64-byte allocation (spare capacity 4,3,2,1,0 and the re-allocation)
	fill := strings.Repeat("a", 60)
	ops = append(ops, bufOp{Name: "fill60", Kind: 'f', Text: []byte(fill), Valid: true, Apply: func(b *buffer.Buffer) {
		if b.Len() != 0 {
			return
		}
		b.SetMode(buffer.SafeEscaped)
		b.WriteString(fill)
		b.SetMode(buffer.UnsafeEscaped)
		b.SetMode(buffer.SafeEscaped)
	}})
	// StringBuilder-level calls (the builder selects the mode itself): applied to a builder wrapped around the state
	sb := func(name string, class byte, text string, valid bool, f func(b *redact.StringBuilder)) {
		ops = append(ops, bufOp{Name: "StringBuilder." + name, Kind: 'b', Class: class, Text: []byte(text), Valid: valid, Apply: func(b *buffer.Buffer) {
			w := redact.StringBuilder{Buffer: *b}
			f(&w)
			*b = w.Buffer
		}})
	}
	for _, x := range []byte{'a', 0xe2, 0x80, 0xb9, 0xba} {
		x := x
		sb(fmt.Sprintf("SafeByte(0x%02x)", x), 'S', string([]byte{x}), x < 0x80, func(b *redact.StringBuilder) { b.SafeByte(ifaces.SafeByte(x)) })
		sb(fmt.Sprintf("UnsafeByte(0x%02x)", x), 'U', string([]byte{x}), x < 0x80, func(b *redact.StringBuilder) { b.UnsafeByte(x) })
	}
	for _, r := range []rune{'‹', '\n'} {
		r := r
		sb(fmt.Sprintf("SafeRune(%#x)", r), 'S', string(r), true, func(b *redact.StringBuilder) { b.SafeRune(redact.SafeRune(r)) })
		sb(fmt.Sprintf("UnsafeRune(%#x)", r), 'U', string(r), true, func(b *redact.StringBuilder) { b.UnsafeRune(r) })
	}
	for _, p := range []string{"", "s" + mEnd, "\xe2\x80"} {
		p := p
		sb("SafeString("+q(p)+")", 'S', p, utf8.ValidString(p), func(b *redact.StringBuilder) { b.SafeString(redact.SafeString(p)) })
		sb("UnsafeString("+q(p)+")", 'U', p, utf8.ValidString(p), func(b *redact.StringBuilder) { b.UnsafeString(p) })
		sb("SafeBytes("+q(p)+")", 'S', p, utf8.ValidString(p), func(b *redact.StringBuilder) { b.SafeBytes([]byte(p)) })
		sb("Write("+q(p)+")", 'U', p, utf8.ValidString(p), func(b *redact.StringBuilder) { b.Write([]byte(p)) })
	}
	sb("SafeInt(7)", 'S', "7", true, func(b *redact.StringBuilder) { b.SafeInt(7) })
	sb("Print(Safe(p),u)", 'R', "p‹ u›", true, func(b *redact.StringBuilder) { b.Print(redact.Safe("p"), " ", "u") })
	sb("Printf(%d,3)", 'R', "n=‹3›", true, func(b *redact.StringBuilder) { b.Printf("n=%d", 3) })
	sb("Print()", 'R', "", true, func(b *redact.StringBuilder) { b.Print() })
	return ops
}

const pendingCap = 4

// bufKey is the canonical key: every Buffer method reads only these fields.
func bufKey(b *buffer.Buffer) (key string, pendingLen int) {
	st := b.VerifState()
	vu := st.ValidUntil
	if vu > len(st.Buf) {
		vu = len(st.Buf)
	}
	if vu < 0 {
		vu = 0
	}
	tail := st.Buf[:vu]
	if len(tail) > 4 {
		tail = tail[len(tail)-4:]
	}
	spare := st.Cap - len(st.Buf)
	sc := 0
	if spare >= 3 {
		sc = 2
		if st.Cap > 64 && len(st.Buf)*4 <= st.Cap {
			sc = 3 // mostly unused storage (after Reset of a large buffer or a generous Grow)
		}
	} else if spare > 0 {
		sc = 1
	}
	return fmt.Sprintf("%d|%v|%v|%x|%x|%d", st.Mode, st.MarkerOpen, len(st.Buf) == 0, tail, st.Buf[vu:], sc), len(st.Buf) - vu
}

type bfsStats struct {
	States, Transitions, FrontierCuts int64
	Depth                             int
	Closed                            bool
}

// bufferBFS explores Buffer states breadth-first from the zero Buffer.
// onTrans is called for every transition (s is never modified; s2 is the fresh successor).
func bufferBFS(c *Ctx, name string, maxDepth int, maxStates int, onState func(s *buffer.Buffer, w *Worker), onTrans func(s *buffer.Buffer, op *bufOp, s2 *buffer.Buffer, w *Worker)) bfsStats {
	return bufferBFSFrom(c, name, []buffer.Buffer{{}}, maxDepth, maxStates, onState, onTrans)
}

// largeInits returns initial states holding n bytes of safe text for each n in sizes, with 4 bytes of spare
// capacity (so that the next few writes cross a re-allocation), once already escaped and once still pending.
// The canonical key does not contain the length; a search started from these states covers code whose behaviour
// depends on the SIZE of the buffer (thresholds, re-allocation policy).
func largeInits(sizes []int) []buffer.Buffer {
	var r []buffer.Buffer
	for _, n := range sizes {
		fill := []byte(strings.Repeat("abcdefgh", n/8+1)[:n])
		r = append(r, buffer.VerifMake(buffer.VState{Buf: fill, ValidUntil: n, Mode: buffer.SafeEscaped, Cap: n + 4}))
		r = append(r, buffer.VerifMake(buffer.VState{Buf: fill, ValidUntil: 0, Mode: buffer.SafeEscaped, Cap: n + 4}))
	}
	return r
}

func largeSizes(quick bool) []int {
	// 66000 and 131080: above the 64 KiB bound at which the printer pool drops buffers (a change may copy that
	// bound into the buffer itself)
	if quick {
		return []int{124, 252, 1020, 4092, 66000}
	}
	return []int{124, 252, 508, 1020, 4092, 65532, 66000, 131080}
}

// bufferBFSFrom is bufferBFS from the given initial states; states reached from different initial states are
// kept apart (the key is prefixed by the length class of the buffer).
func bufferBFSFrom(c *Ctx, name string, inits []buffer.Buffer, maxDepth int, maxStates int, onState func(s *buffer.Buffer, w *Worker), onTrans func(s *buffer.Buffer, op *bufOp, s2 *buffer.Buffer, w *Worker)) bfsStats {
	ops := bufOps()
	var st bfsStats
	seen := map[uint64]struct{}{} // 64-bit hashes of the canonical keys (a collision can only lose coverage)
	var frontier []buffer.Buffer
	large := len(inits) > 1
	bufKey := func(b *buffer.Buffer) (string, int) {
		k, pl := bufKey(b)
		if large {
			// size class: the position of the highest set bit of the length; pending text of the initial filler is not capped
			n := b.VerifState()
			k = fmt.Sprintf("%d#%s", bitLen(len(n.Buf)), k)
			if pl > 100 {
				k = fmt.Sprintf("%d#pending-large#%d|%v|%x", bitLen(len(n.Buf)), n.Mode, n.MarkerOpen, n.Buf[len(n.Buf)-4:])
			}
		}
		return k, pl
	}
	for i := range inits {
		k0, _ := bufKey(&inits[i])
		if _, ok := seen[hashString(k0)]; ok {
			continue
		}
		seen[hashString(k0)] = struct{}{}
		frontier = append(frontier, inits[i])
		st.States++
	}
	for depth := 0; len(frontier) > 0; depth++ {
		if depth >= maxDepth || int(st.States) >= maxStates || c.TimeUp() {
			st.Depth = depth
			st.FrontierCuts += int64(len(frontier))
			break
		}
		st.Depth = depth + 1
		var mu sync.Mutex
		var next []buffer.Buffer
		var nextKeys []uint64
		cur := frontier
		sec := c.Section(fmt.Sprintf("%s/level%d", name, depth), map[string]interface{}{"frontier_states": len(cur), "ops": len(ops)}, len(cur), func(i int, w *Worker) {
			s := &cur[i]
			if onState != nil {
				onState(s, w)
			}
			mode := s.GetMode()
			var loc []buffer.Buffer
			var lk []uint64
			for oi := range ops {
				op := &ops[oi]
				if op.Kind == 'w' && op.Raw != (mode == buffer.SafeRaw) {
					continue
				}
				s2 := s.VerifClone()
				_, pan := recoverTo(func() { op.Apply(&s2) })
				w.Eval()
				if pan {
					w.panics++
					continue
				}
				if onTrans != nil {
					onTrans(s, op, &s2, w)
				}
				k, pl := bufKey(&s2)
				w.Seen(hashString(k))
				if pl > pendingCap {
					w.Count("frontier_cuts_pending_cap", 1)
					continue
				}
				loc = append(loc, s2)
				lk = append(lk, hashString(k))
			}
			mu.Lock()
			next = append(next, loc...)
			nextKeys = append(nextKeys, lk...)
			mu.Unlock()
		})
		st.Transitions += sec.Evaluations
		frontier = frontier[:0]
		for i, k := range nextKeys {
			if _, ok := seen[k]; ok {
				continue
			}
			seen[k] = struct{}{}
			st.States++
			frontier = append(frontier, next[i])
		}
	}
	st.Closed = len(frontier) == 0
	return st
}

package main

import (
	"encoding/json"
	"fmt"
	"strings"

	redact "github.com/cockroachdb/redact"
)

func init() {
	replayers["C02/field-pairs"] = func(c *Ctx, raw json.RawMessage) string {
		var cs struct {
			Pub, Sec, Lay, Dir int
			Swap               bool
		}
		json.Unmarshal(raw, &cs)
		if cs.Pub < 0 {
			return c02Run("<"+c02FieldDirs[cs.Dir]+">", func(v int) []interface{} {
				return []interface{}{fpTyped{safeStrerT{"id"}, secStr[v], 5, secInt[v]}}
			}, nil)
		}
		return c02FieldPair(cs.Pub, cs.Sec, cs.Lay, cs.Dir, cs.Swap, nil)
	}
	replayers["C02/secret-shapes"] = func(c *Ctx, raw json.RawMessage) string {
		var cs struct {
			Shape        []int
			Carrier, Dir int
		}
		json.Unmarshal(raw, &cs)
		return c02Shape(cs.Shape, cs.Carrier, cs.Dir, nil)
	}
	checks["C02"] = checkC02
	rules["C02"] = "two-run non-interference: every (directive, value) cell, format program, directive pair and Sprint operand list is executed twice with the two instantiations of its unsafe leaves (same shape, lengths, line-feed positions; public parts shared) and the Redact() results must be byte-identical; with and without an error hook; distinct = distinct redacted outputs"
	replayers["C02/directives"] = func(c *Ctx, raw json.RawMessage) string {
		var cs struct {
			D Directive
			V int
		}
		json.Unmarshal(raw, &cs)
		u := universe()
		if cs.V >= len(u) {
			return "value index out of range"
		}
		_, d := c02Directive(cs.D, &u[cs.V], nil)
		return d
	}
	replayers["C02/directives+hook"] = func(c *Ctx, raw json.RawMessage) string {
		redact.RegisterRedactErrorFn(c02Hook)
		defer redact.RegisterRedactErrorFn(nil)
		return replayers["C02/directives"](c, raw)
	}
	replayers["C02/programs"] = func(c *Ctx, raw json.RawMessage) string {
		var cs struct {
			F []byte
			A int
		}
		json.Unmarshal(raw, &cs)
		return c02Run(string(cs.F), func(v int) []interface{} { return c02ArgList(cs.A, v) }, nil)
	}
	replayers["C02/pairs"] = func(c *Ctx, raw json.RawMessage) string {
		var cs struct {
			D1, D2 Directive
			V1, V2 int
		}
		json.Unmarshal(raw, &cs)
		return c02Pair(cs.D1, cs.D2, cs.V1, cs.V2, nil)
	}
	replayers["C02/sprint"] = func(c *Ctx, raw json.RawMessage) string {
		var cs struct{ Vs []int }
		json.Unmarshal(raw, &cs)
		return c02Sprint(cs.Vs, nil)
	}
}

func c02Hook(err error, p redact.SafePrinter, verb rune) {
	p.SafeString("hook<")
	p.SafeRune(redact.SafeRune(verb))
	p.SafeString(">:")
	p.UnsafeString(err.Error())
}

var secretTokens = []string{"alpha", "OMEGA", "XYZ", "QRS", "1234", "5678", "ret", "Xõ", "aé"}

// c02Run executes the two instantiations and compares the redacted outputs.
func c02Run(f string, mk func(v int) []interface{}, seen func(string)) string {
	var r [2]redact.RedactableString
	var pan [2]bool
	var pv [2]interface{}
	for v := 0; v < 2; v++ {
		args := mk(v)
		pv[v], pan[v] = recoverTo(func() { r[v] = redact.Sprintf(f, args...) })
	}
	if pan[0] != pan[1] {
		return fmt.Sprintf("Sprintf(%q): panics for one instantiation only (%v / %v)", f, pv[0], pv[1])
	}
	if pan[0] {
		return ""
	}
	a, b := r[0].Redact(), r[1].Redact()
	if seen != nil {
		seen(string(a))
	}
	if a != b {
		return fmt.Sprintf("Sprintf(%q, %s | %s): outputs %q | %q redact to %q | %q", f, descArgs(mk(0)), descArgs(mk(1)), r[0], r[1], a, b)
	}
	for _, t := range secretTokens {
		if strings.Contains(string(a), t) && !strings.Contains(f, t) {
			return fmt.Sprintf("Sprintf(%q, %s): redacted output %q still contains %q", f, descArgs(mk(0)), a, t)
		}
	}
	return ""
}

func c02Directive(d Directive, val *Val, seen func(string)) (class, detail string) {
	f, stars := d.Format()
	dt := c02Run(f, func(v int) []interface{} { return append(append([]interface{}{}, stars...), val.Mk(v)) }, seen)
	if dt == "" {
		return "", ""
	}
	if val.Name == "SafeMessager" && !strings.ContainsRune("vsxXqTp", d.Verb) {
		return "K3-safemessager-badverb", dt
	}
	return "directive:" + val.Name, dt
}

// argument lists for format programs: integer operands are public (a '*' may consume them)
func c02ArgList(a, v int) []interface{} {
	switch a {
	case 0:
		return nil
	case 1:
		return []interface{}{secStrLF[v], 3}
	case 2:
		return []interface{}{5, errT{secStr[v]}, secPlain[v]}
	case 3:
		return []interface{}{nil, []interface{}{1, secStr[v]}, secF[v]}
	case 4:
		return []interface{}{-2, 2, strT{secStrLF[v]}}
	case 5:
		return []interface{}{structT{7, secStr[v], secPlain[v]}, map[string]int{secKeyA[v]: 1}, panStrT{"pb " + secPlain[v]}}
	case 6:
		return []interface{}{redact.Safe("pub"), secPlain[v], safeFmtT{"k", secStr[v]}}
	case 7:
		return []interface{}{"", secStrLF[v], 1}
	case 8:
		return []interface{}{secPlain[v] + "\n", "", redact.Safe(mStart + "s")}
	case 100:
		return []interface{}{4, 5, secPlain[v]}
	case 101:
		return []interface{}{secPlain[v], 2, secF[v]}
	case 102:
		return []interface{}{7}
	}
	return nil
}

const c02NArgLists = 9

func c02PairVals() []Val {
	var r []Val
	want := map[string]bool{"int": true, "stringLF": true, "float64": true, "[]byte": true, "[]interface{}": true, "struct": true, "Stringer": true, "error": true, "safeT": true, "panic String(str)": true, "nil": true, "map[string]int": true, "Formatter": true, "bool": true,
		"stringEmpty": true, "Safe(str)": true, "Unsafe(safeT)": true, "RedactableString": true, "SafeFormatter": true, "[]iface{Safe,unsafe,Redactable}": true, "*int": true, "Safe(nil)": true, "RedactableString starting and ending with an envelope": true}
	for _, v := range universe() {
		if want[v.Name] {
			r = append(r, v)
		}
	}
	return r
}

func c02Pair(d1, d2 Directive, v1, v2 int, seen func(string)) string {
	u := c02PairVals()
	f1, s1 := d1.Format()
	f2, s2 := d2.Format()
	mk := func(v int) []interface{} {
		return append(append(append(append([]interface{}{}, s1...), u[v1].Mk(v)), s2...), u[v2].Mk(v))
	}
	if d := c02Run("a"+f1+"|"+f2+"z", mk, seen); d != "" {
		return d
	}
	return c02Run(f1+f2+"\n", mk, seen)
}

func c02Sprint(vs []int, seen func(string)) string {
	u := c02PairVals()
	var r [2]redact.RedactableString
	var pan [2]bool
	for v := 0; v < 2; v++ {
		var args []interface{}
		for _, i := range vs {
			args = append(args, u[i].Mk(v))
		}
		_, pan[v] = recoverTo(func() { r[v] = redact.Sprint(args...) })
	}
	if pan[0] != pan[1] {
		return fmt.Sprintf("Sprint(%v): panics for one instantiation only", vs)
	}
	a, b := r[0].Redact(), r[1].Redact()
	if seen != nil {
		seen(string(a))
	}
	if a != b {
		return fmt.Sprintf("Sprint(values %v): outputs %q | %q redact to %q | %q", vs, r[0], r[1], a, b)
	}
	return ""
}

// --- secret shapes: every short string over {letters, start marker, end marker, cross, LF, '?', space, lone
// marker lead byte} as the secret, in every carrier, instead of a few fixed secrets: what the escaper does with a
// secret depends on which of these are ADJACENT in it.

var c02ShapeToks = [][2]string{{"kq", "WZ"}, {mStart, mStart}, {mEnd, mEnd}, {"\n", "\n"}, {"×", "×"}, {"?", "?"}, {" ", " "}, {"\xe2", "\xe2"}}

var c02Carriers = []struct {
	Name string
	Mk   func(s string) interface{}
}{
	{"string", func(s string) interface{} { return s }},
	{"[]byte", func(s string) interface{} { return []byte(s) }},
	{"error", func(s string) interface{} { return errT{s} }},
	{"Stringer", func(s string) interface{} { return strT{s} }},
	{"Unsafe(string)", func(s string) interface{} { return redact.Unsafe(s) }},
	{"[]string{s,s}", func(s string) interface{} { return []string{s, s} }},
	{"struct{string;int}", func(s string) interface{} { return structT{7, s, s} }},
	{"map[string]string{s:s}", func(s string) interface{} { return map[string]string{s: s} }},
	{"Formatter(io.WriteString)", func(s string) interface{} { return fmtWST{s} }},
	{"Unsafe([]interface{}{s,1,s})", func(s string) interface{} { return redact.Unsafe([]interface{}{s, 1, s}) }},
	{"panic value", func(s string) interface{} { return panStrT{s} }},
}

var c02ShapeDirs = []string{"%v", "%s", "%q", "%x", "%+v", "%#v", "%12s", "%-12v", "%.3s", "%c"}

func c02Shape(shape []int, carrier, dir int, seen func(string)) string {
	var sec [2]string
	for v := 0; v < 2; v++ {
		for _, t := range shape {
			sec[v] += c02ShapeToks[t][v]
		}
	}
	mk := func(v int) []interface{} { return []interface{}{c02Carriers[carrier].Mk(sec[v])} }
	for _, f := range []string{"p " + c02ShapeDirs[dir] + " r", c02ShapeDirs[dir] + "\n"} {
		if d := c02Run(f, mk, seen); d != "" {
			return d
		}
		var o redact.RedactableString
		if _, pan := recoverTo(func() { o = redact.Sprintf(f, mk(0)...).Redact() }); !pan && strings.Contains(string(o), "kq") {
			return fmt.Sprintf("Sprintf(%q, %s %q): redacted output %q contains the secret's letters", f, c02Carriers[carrier].Name, sec[0], o)
		}
	}
	return ""
}

// --- field pairs: a value with a classification of its own next to a secret inside one struct, in both orders, with
// every combination of exported and unexported fields: what the printer remembers from one field (the current
// operand, an override, a mode) must not decide how the NEXT field is classified.

type (
	fpEE struct{ A, B interface{} }
	fpEU struct {
		A interface{}
		b interface{}
	}
	fpUE struct {
		a interface{}
		B interface{}
	}
	fpUU    struct{ a, b interface{} }
	fpTyped struct {
		ID    safeStrerT
		token string
		N     safeIntT
		pin   int
	}
	fpNested struct {
		P fpEU
		q fpUE
	}
)

type fpMsgT struct{ hidden string }

func (fpMsgT) SafeMessage() string { return "const-msg" }

var c02Publics = []struct {
	Name string
	V    interface{}
}{
	{"SafeValue+Stringer", safeStrerT{"id"}},
	{"SafeValue", safeT("pub")},
	{"SafeValue int", safeIntT(3)},
	{"Safe(string)", redact.Safe("s")},
	{"Safe(Stringer)", redact.Safe(strT{"x"})},
	{"SafeFormatter", safeFmtT{"k", "v"}},
	{"SafeMessager", fpMsgT{"m"}},
	{"RedactableString", redact.RedactableString("r" + mStart + "z" + mEnd)},
	{"nil", nil},
	{"unsafe Stringer (no secret)", strT{"plainstr"}},
	{"panicking Stringer", panStrT{"pp"}},
}

var c02SecretFields = []struct {
	Name string
	Mk   func(v int) interface{}
}{
	{"string", func(v int) interface{} { return secStr[v] }},
	{"int", func(v int) interface{} { return secInt[v] }},
	{"[]byte", func(v int) interface{} { return []byte(secBytes[v]) }},
	{"Stringer", func(v int) interface{} { return strT{secStr[v]} }},
	{"error", func(v int) interface{} { return errT{secPlain[v]} }},
	{"struct", func(v int) interface{} { return structT{secInt[v], secStr[v], secPlain[v]} }},
	{"[]string", func(v int) interface{} { return []string{secPlain[v], secStr[v]} }},
}

var c02FieldLayouts = []struct {
	Name string
	Mk   func(x, y interface{}) interface{}
}{
	{"struct{A,B}", func(x, y interface{}) interface{} { return fpEE{x, y} }},
	{"struct{A,b}", func(x, y interface{}) interface{} { return fpEU{x, y} }},
	{"struct{a,B}", func(x, y interface{}) interface{} { return fpUE{x, y} }},
	{"struct{a,b}", func(x, y interface{}) interface{} { return fpUU{x, y} }},
	{"&struct{A,b}", func(x, y interface{}) interface{} { return &fpEU{x, y} }},
	{"[]struct{A,b}", func(x, y interface{}) interface{} { return []fpEU{{x, y}, {y, x}} }},
	{"map[string]struct{a,B}", func(x, y interface{}) interface{} { return map[string]fpUE{"k": {x, y}} }},
	{"struct{P struct{A,b}; q struct{a,B}}", func(x, y interface{}) interface{} { return fpNested{fpEU{x, y}, fpUE{y, x}} }},
	{"[]interface{}{x,y,x}", func(x, y interface{}) interface{} { return []interface{}{x, y, x} }},
}

var c02FieldDirs = []string{"%v", "%+v", "%#v", "%s", "%q", "%x", "%d", "%10v", "%-8s"}

func c02FieldPair(pub, sec, lay, dir int, swap bool, seen func(string)) string {
	mk := func(v int) []interface{} {
		x, y := c02Publics[pub].V, c02SecretFields[sec].Mk(v)
		if swap {
			return []interface{}{c02FieldLayouts[lay].Mk(y, x)}
		}
		return []interface{}{c02FieldLayouts[lay].Mk(x, y)}
	}
	return c02Run("<"+c02FieldDirs[dir]+">", mk, seen)
}

func checkC02(c *Ctx) {
	npSection(c, "C02", 1)
	u := universe()
	sp := quickDirectives()
	if !c.Quick() {
		sp = fullDirectives()
	}
	dirSection := func(name string) {
		c.Section(name, map[string]interface{}{"directives": sp.Size(), "values": len(u), "instantiations": 2}, sp.Size(), func(i int, w *Worker) {
			d := sp.Get(i)
			for vi := range u {
				w.Eval()
				if cl, dt := c02Directive(d, &u[vi], w.SeenS); dt != "" {
					w.Fail(cl, map[string]interface{}{"D": d, "V": vi, "value": u[vi].Name}, dt)
				}
			}
			if i%1009 == 0 {
				v := u[(i/7)%len(u)]
				f, stars := d.Format()
				recoverTo(func() {
					o0 := redact.Sprintf(f, append(append([]interface{}{}, stars...), v.Mk(0))...)
					o1 := redact.Sprintf(f, append(append([]interface{}{}, stars...), v.Mk(1))...)
					w.Sample(map[string]interface{}{"format": d.String(), "value": v.Name, "run0": q(string(o0)), "run1": q(string(o1)), "redacted": q(string(o0.Redact()))})
				})
			}
		})
	}
	dirSection("C02/directives")
	nPub, nSec, nLay, nDir := len(c02Publics), len(c02SecretFields), len(c02FieldLayouts), len(c02FieldDirs)
	c.Section("C02/field-pairs", map[string]interface{}{"classified_values": nPub, "secret_kinds": nSec, "layouts": nLay, "orders": 2, "directives": c02FieldDirs, "plus": "a struct with typed fields: SafeValue+Stringer, unexported string, SafeValue int, unexported int"}, nPub*nSec*nLay, func(i int, w *Worker) {
		pub, sec, lay := i/(nSec*nLay), i/nLay%nSec, i%nLay
		for dir := 0; dir < nDir; dir++ {
			for _, swap := range []bool{false, true} {
				w.Eval()
				if dt := c02FieldPair(pub, sec, lay, dir, swap, w.SeenS); dt != "" {
					w.Fail("field-pair:"+c02FieldLayouts[lay].Name, map[string]interface{}{"Pub": pub, "Sec": sec, "Lay": lay, "Dir": dir, "Swap": swap}, dt)
				}
			}
			if i == 0 {
				f := "<" + c02FieldDirs[dir] + ">"
				if dt := c02Run(f, func(v int) []interface{} {
					return []interface{}{fpTyped{safeStrerT{"id"}, secStr[v], 5, secInt[v]}}
				}, w.SeenS); dt != "" {
					w.Fail("field-pair:typed", map[string]interface{}{"Pub": -1, "Dir": dir}, dt)
				}
			}
		}
	})
	ns := 4
	if !c.Quick() {
		ns = 6
	}
	she := NewSeqEnum(len(c02ShapeToks), ns)
	c.Section("C02/secret-shapes", map[string]interface{}{"tokens": len(c02ShapeToks), "max_tokens": ns, "carriers": len(c02Carriers), "directives": c02ShapeDirs}, she.Total, func(i int, w *Worker) {
		shape := she.Get(i, nil)
		for ca := range c02Carriers {
			for di := range c02ShapeDirs {
				w.Eval()
				if dt := c02Shape(shape, ca, di, w.SeenS); dt != "" {
					w.Fail("secret-shape:"+c02Carriers[ca].Name, map[string]interface{}{"Shape": append([]int(nil), shape...), "Carrier": ca, "Dir": di}, dt)
				}
			}
		}
	})
	k := 3
	if !c.Quick() {
		k = 4
	}
	en := NewStrEnum(fmtTokens, k)
	c.Section("C02/programs", map[string]interface{}{"tokens": fmtTokens, "max_tokens": k, "arg_lists": c02NArgLists, "shared": "integer operands (a * may consume them), Safe() operands, literals"}, en.Total, func(i int, w *Worker) {
		f := string(en.Get(i, nil))
		for a := 0; a < c02NArgLists; a++ {
			a := a
			w.Eval()
			if dt := c02Run(f, func(v int) []interface{} { return c02ArgList(a, v) }, w.SeenS); dt != "" {
				w.Fail("program", map[string]interface{}{"F": []byte(f), "A": a, "quoted": q(f)}, dt)
			}
		}
	})
	ifs := indexedFormats(c.Quick())
	c.Section("C02/indexed", map[string]interface{}{"formats": len(ifs), "arg_lists": 3}, len(ifs), func(i int, w *Worker) {
		for a := 100; a < 103; a++ {
			a := a
			w.Eval()
			if dt := c02Run(ifs[i], func(v int) []interface{} { return c02ArgList(a, v) }, w.SeenS); dt != "" {
				w.Fail("indexed", map[string]interface{}{"F": []byte(ifs[i]), "A": a, "quoted": q(ifs[i])}, dt)
			}
		}
	})
	replayers["C02/indexed"] = replayers["C02/programs"]
	c.Section("C02/sizes", map[string]interface{}{"sizes": "every n in 0..70", "shapes": len(sizeShapes)}, 71*len(sizeShapes), func(i int, w *Worker) {
		n, sh := i/len(sizeShapes), i%len(sizeShapes)
		w.Eval()
		f, _ := sizeShapes[sh].Mk(n, 0)
		var dt string
		if f == "" {
			a0, a1 := redact.Sprint(func() []interface{} { _, a := sizeShapes[sh].Mk(n, 0); return a }()...), redact.Sprint(func() []interface{} { _, a := sizeShapes[sh].Mk(n, 1); return a }()...)
			if a0.Redact() != a1.Redact() {
				dt = fmt.Sprintf("Sprint with %d operands: %q | %q redact to %q | %q", n, a0, a1, a0.Redact(), a1.Redact())
			}
		} else {
			dt = c02Run(f, func(v int) []interface{} { _, a := sizeShapes[sh].Mk(n, v); return a }, w.SeenS)
		}
		if dt != "" {
			w.Fail("sizes:"+sizeShapes[sh].Name, map[string]interface{}{"N": n, "Shape": sh}, dt)
		}
	})
	md := midDirectives()
	pv := c02PairVals()
	nd := md.Size()
	var vp [][2]int
	for a := range pv {
		for b := range pv {
			if c.Quick() && (a+2*b)%4 != 0 {
				continue
			}
			vp = append(vp, [2]int{a, b})
		}
	}
	c.Section("C02/pairs", map[string]interface{}{"directives_each": nd, "value_pairs": len(vp)}, nd*nd, func(i int, w *Worker) {
		d1, d2 := md.Get(i/nd), md.Get(i%nd)
		p := vp[i%len(vp)]
		w.Eval()
		if dt := c02Pair(d1, d2, p[0], p[1], w.SeenS); dt != "" {
			w.Fail("pair", map[string]interface{}{"D1": d1, "D2": d2, "V1": p[0], "V2": p[1]}, dt)
		}
	})
	se := NewSeqEnum(len(pv), 3)
	c.Section("C02/sprint", map[string]interface{}{"operand_values": len(pv), "max_operands": 3}, se.Total, func(i int, w *Worker) {
		vs := se.Get(i, nil)
		w.Eval()
		if dt := c02Sprint(vs, w.SeenS); dt != "" {
			w.Fail("sprint", map[string]interface{}{"Vs": vs}, dt)
		}
	})
	// second configuration: error hook installed
	redact.RegisterRedactErrorFn(c02Hook)
	if c.Quick() {
		sp = midDirectives()
	} else {
		sp = quickDirectives()
	}
	dirSection("C02/directives+hook")
	redact.RegisterRedactErrorFn(nil)
	c.Assume("two instantiations per unsafe leaf, differing in every byte, sign, case and (where the shape allows) script; a leak that is a constant function of the secret cannot exist, one that coincides on both variants is considered implausible; panic payloads declared safe by the user are public")
}

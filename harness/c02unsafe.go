package main

import (
	"strings"

	"github.com/cockroachdb/redact"
)

// Secrets that are unsafe only because an OUTERMOST Unsafe() says so, although the value carrying them has a
// classification of its own (pre-redactable, Safe(), SafeString, SafeValue+Stringer): every such class, bare and in
// every container shape, under Unsafe(). The code paths that honour a value's own classification at depth > 0 are
// distinct from the top-level ones, and each must still look at the override first (round 17, C02q).

type c02HoldT struct {
	A interface{}
	b interface{}
}

func init() {
	type inner struct {
		name string
		mk   func(s string) interface{}
	}
	inners := []inner{
		{"RedactableString", func(s string) interface{} { return redact.RedactableString(s) }},
		{"RedactableBytes", func(s string) interface{} { return redact.RedactableBytes(s) }},
		{"Safe(string)", func(s string) interface{} { return redact.Safe(s) }},
		{"SafeString", func(s string) interface{} { return redact.SafeString(s) }},
		{"SafeValue+Stringer", func(s string) interface{} { return safeStrerT{s} }},
	}
	shapes := []struct {
		name string
		mk   func(x interface{}) interface{}
	}{
		{"%s", func(x interface{}) interface{} { return x }},
		{"[]interface{}{%s,1,%s}", func(x interface{}) interface{} { return []interface{}{x, 1, x} }},
		{"struct{A,b interface{}}{%s,%s}", func(x interface{}) interface{} { return c02HoldT{x, x} }},
		{"map[string]interface{}{k:%s}", func(x interface{}) interface{} { return map[string]interface{}{"k": x} }},
		{"&struct{A,b interface{}}{%s,%s}", func(x interface{}) interface{} { return &c02HoldT{x, x} }},
	}
	add := func(name string, mk func(s string) interface{}) {
		c02Carriers = append(c02Carriers, struct {
			Name string
			Mk   func(s string) interface{}
		}{name, mk})
	}
	for _, in := range inners {
		for _, sh := range shapes {
			in, sh := in, sh
			add("Unsafe("+strings.ReplaceAll(sh.name, "%s", in.name)+")", func(s string) interface{} { return redact.Unsafe(sh.mk(in.mk(s))) })
		}
	}
	// statically typed slots: the printer reaches the leaf through reflection on the element type, not through an interface
	add("Unsafe([]RedactableString{s,s})", func(s string) interface{} {
		return redact.Unsafe([]redact.RedactableString{redact.RedactableString(s), redact.RedactableString(s)})
	})
	add("Unsafe([]RedactableBytes{s,s})", func(s string) interface{} {
		return redact.Unsafe([]redact.RedactableBytes{redact.RedactableBytes(s), redact.RedactableBytes(s)})
	})
	add("Unsafe([2]SafeString{s,s})", func(s string) interface{} {
		return redact.Unsafe([2]redact.SafeString{redact.SafeString(s), redact.SafeString(s)})
	})
	add("Unsafe(map[SafeString]RedactableString{s:s})", func(s string) interface{} {
		return redact.Unsafe(map[redact.SafeString]redact.RedactableString{redact.SafeString(s): redact.RedactableString(s)})
	})
	add("Unsafe(struct{R RedactableString; b RedactableBytes})", func(s string) interface{} {
		return redact.Unsafe(struct {
			R redact.RedactableString
			b redact.RedactableBytes
		}{redact.RedactableString(s), redact.RedactableBytes(s)})
	})
}

package main

import (
	"bytes"
	"encoding/json"
	"fmt"
	"strings"
	"unicode/utf8"

	redact "github.com/cockroachdb/redact"
)

func init() {
	checks["C04"] = checkC04
	rules["C04"] = "complete product of the directive grammar x the fmt-compatible value universe, all format programs of <=k tokens x argument lists, all pairs of mid-size directives, all Sprint operand lists of <=3 operands; each executed by redact and by fmt on the SAME value object and compared after stripping/escaping; distinct = distinct fmt outputs"
	replayers["C04/directives"] = func(c *Ctx, raw json.RawMessage) string {
		var cs struct {
			D Directive
			V int
		}
		json.Unmarshal(raw, &cs)
		u := fmtUniverse()
		if cs.V >= len(u) {
			return "value index out of range"
		}
		return c04Directive(cs.D, &u[cs.V])
	}
	replayers["C04/programs"] = func(c *Ctx, raw json.RawMessage) string {
		var cs struct {
			F []byte
			A int
		}
		json.Unmarshal(raw, &cs)
		if cs.A >= 100 {
			return c04Compare(string(cs.F), [][]interface{}{{4, 5, "six" + mEnd}, {"a", 2, 3.5}, {7}}[cs.A-100])
		}
		return c04Compare(string(cs.F), c04ArgLists()[cs.A])
	}
	replayers["C04/indexed"] = replayers["C04/programs"]
	replayers["C04/sizes"] = func(c *Ctx, raw json.RawMessage) string {
		var cs struct{ N, Shape int }
		json.Unmarshal(raw, &cs)
		f, args := sizeShapes[cs.Shape].Mk(cs.N, 0)
		if f == "" {
			return c04SprintArgs(args)
		}
		return c04Compare(f, args)
	}
	replayers["C04/pairs"] = func(c *Ctx, raw json.RawMessage) string {
		var cs struct {
			D1, D2 Directive
			V1, V2 int
		}
		json.Unmarshal(raw, &cs)
		return c04Pair(cs.D1, cs.D2, cs.V1, cs.V2)
	}
	replayers["C04/element-pairs"] = func(c *Ctx, raw json.RawMessage) string {
		var cs struct {
			D        Directive
			A, B, Ct int
		}
		json.Unmarshal(raw, &cs)
		return c04ElemPair(cs.D, cs.A, cs.B, cs.Ct)
	}
	replayers["C04/sprint"] = func(c *Ctx, raw json.RawMessage) string {
		var cs struct{ Vs []int }
		json.Unmarshal(raw, &cs)
		return c04Sprint(cs.Vs)
	}
}

// c04Compare runs redact and fmt on the same format and the same argument objects.
func c04Compare(f string, args []interface{}, seen ...func(string)) string {
	var r redact.RedactableString
	var s string
	pvR, panR := recoverTo(func() { r = redact.Sprintf(f, args...) })
	pvF, panF := recoverTo(func() { s = fmt.Sprintf(f, args...) })
	if panR != panF {
		return fmt.Sprintf("Sprintf(%q, %s): redact panics=%v (%v), fmt panics=%v (%v)", f, descArgs(args), panR, pvR, panF, pvF)
	}
	if panR {
		return ""
	}
	if len(seen) > 0 {
		seen[0](s)
	}
	got, want := Strip([]byte(r)), Esc([]byte(s))
	if !utf8.Valid(want) {
		// outside the claim (invalid UTF-8): the library may add '?' guards after dangling bytes
		got, want = bytes.ReplaceAll(got, []byte("?"), nil), bytes.ReplaceAll(want, []byte("?"), nil)
	}
	if !bytes.Equal(got, want) {
		return fmt.Sprintf("Sprintf(%q, %s): redact %q, stripped %q; fmt (markers escaped) %q", f, descArgs(args), r, got, want)
	}
	// the F variant must deliver the same bytes
	var rec recWriter
	n, err := redact.Fprintf(&rec, f, args...)
	if len(rec.writes) != 1 || n != len(rec.writes[0]) || err != nil || string(rec.writes[0]) != string(r) {
		return fmt.Sprintf("Fprintf(%q, %s): writes=%q n=%d err=%v, want one write stripping to %q", f, descArgs(args), rec.writes, n, err, want)
	}
	return ""
}

type recWriter struct{ writes [][]byte }

func (w *recWriter) Write(p []byte) (int, error) {
	w.writes = append(w.writes, append([]byte(nil), p...))
	return len(p), nil
}

func c04Directive(d Directive, v *Val, seen ...func(string)) string {
	if d.Verb == 'w' || d.zeroMeetsMinus() {
		return ""
	}
	if v.PanicMid && (d.Wid != 0 || d.Prec != 0) {
		return "" // Go>=1.21 fmt forgets width/precision after catchPanic inside a composite
	}
	f, stars := d.Format()
	return c04Compare(f, append(stars, v.Mk(0)), seen...)
}

func c04ArgLists() [][]interface{} {
	x := 7
	return [][]interface{}{
		{},
		{secStrLF[0], 3},
		{5, errT{secStr[0]}, "z"},
		{nil, []interface{}{1, "a" + mEnd}, 2.5},
		{-2, 2, strT{"x\n"}},
		{&x, map[string]int{"k": 1}, panStrT{"pb"}},
		// operands that print NOTHING, or end in a line feed, first: the empty envelope they leave is taken back,
		// and what follows (a literal with a marker) is the first thing written after that
		{"", "a\n", 1},
		{"line\n", "", []byte{}},
	}
}

// excludedProgram: the format may contain a directive of the excluded classes.
func excludedProgram(f string) bool {
	if strings.Contains(f, "w") {
		return true
	}
	if strings.Contains(f, "0") && (strings.Contains(f, "-") || strings.Contains(f, "*")) {
		return true
	}
	return false
}

func c04Pair(d1, d2 Directive, v1, v2 int) string {
	if d1.Verb == 'w' || d2.Verb == 'w' || d1.zeroMeetsMinus() || d2.zeroMeetsMinus() {
		return ""
	}
	u := c04PairVals()
	f1, s1 := d1.Format()
	f2, s2 := d2.Format()
	args := append(append(append(s1, u[v1].Mk(0)), s2...), u[v2].Mk(0))
	if d := c04Compare("a"+f1+"|"+f2+"z", args); d != "" {
		return d
	}
	return c04Compare(f1+f2+"\n", args) // adjacent directives, then a line feed in the literal
}

func c04Elems() []interface{} {
	return []interface{}{0, 7, -3, uint(0), int8(0), uint8(9), 0.0, 2.5, float32(0), "", "s\n" + mStart, true, false, nil, 'x', []byte{}, []byte("ab"),
		complex(0, 0), complex(1, -2), (*int)(nil), struct{}{}, strT{""}, errT{"e"}, safeT(""), []int{}, []int{0, 1}, map[string]int{}, uintptr(0)}
}

func c04ElemSpace(quick bool) DirectiveSpace {
	if quick {
		return DirectiveSpace{FlagSets: []int{0, 1, 2, 4, 8, 16, 20, 17}, Wids: []int{0, 3}, Precs: []int{0, 2, 3}, Verbs: []rune("vdsxqtcUefgp")}
	}
	return DirectiveSpace{FlagSets: seq(32), Wids: []int{0, 1, 3, 6, 7}, Precs: []int{0, 1, 2, 3, 4, 5}, Verbs: []rune("vdsxXqtbcoOUeEfFgGpTz")}
}

type c04pairT struct{ A, B interface{} }

func c04ElemPair(d Directive, a, b, ct int) string {
	if d.Verb == 'w' || d.zeroMeetsMinus() {
		return ""
	}
	el := c04Elems()
	var v interface{}
	switch ct {
	case 0:
		v = []interface{}{el[a], el[b]}
	case 1:
		v = c04pairT{el[a], el[b]}
	default:
		v = map[string]interface{}{"a": el[a], "b": el[b]}
	}
	f, stars := d.Format()
	return c04Compare(f, append(stars, v))
}

func c04PairVals() []Val {
	var r []Val
	want := map[string]bool{"int": true, "stringLF": true, "float64": true, "[]byte": true, "[]interface{}": true, "struct": true, "Stringer": true, "error": true, "safeT": true, "panic String(str)": true, "nil": true, "map[string]int": true, "recFormatter": true, "bool": true, "stringEmpty": true}
	for _, v := range fmtUniverse() {
		if want[v.Name] {
			r = append(r, v)
		}
	}
	return r
}

func c04Sprint(vs []int) string {
	u := c04PairVals()
	var args []interface{}
	for _, i := range vs {
		args = append(args, u[i].Mk(0))
	}
	var r redact.RedactableString
	var s string
	_, panR := recoverTo(func() { r = redact.Sprint(args...) })
	_, panF := recoverTo(func() { s = fmt.Sprint(args...) })
	if panR != panF {
		return fmt.Sprintf("Sprint(%s): redact panics=%v, fmt panics=%v", descArgs(args), panR, panF)
	}
	if got, want := Strip([]byte(r)), Esc([]byte(s)); !bytes.Equal(got, want) {
		return fmt.Sprintf("Sprint(%s): redact %q, stripped %q; fmt %q", descArgs(args), r, got, want)
	}
	var rec recWriter
	n, err := redact.Fprint(&rec, args...)
	if len(rec.writes) != 1 || n != len(rec.writes[0]) || err != nil || string(rec.writes[0]) != string(r) {
		return fmt.Sprintf("Fprint(%s): writes=%q n=%d err=%v, Sprint gave %q", descArgs(args), rec.writes, n, err, r)
	}
	return ""
}

// sizeShapes: families indexed by a size n; Mk returns (format or "" for Sprint, operands) for variant v.
var sizeShapes = []struct {
	Name string
	Mk   func(n, v int) (string, []interface{})
}{
	{"Sprint n operands", func(n, v int) (string, []interface{}) {
		var a []interface{}
		for k := 0; k < n; k++ {
			switch k % 4 {
			case 0:
				a = append(a, secInt[v]+k)
			case 1:
				a = append(a, secPlain[v])
			case 2:
				a = append(a, safeT("p"))
			default:
				a = append(a, secF[v])
			}
		}
		return "", a
	}},
	{"Sprintf n directives", func(n, v int) (string, []interface{}) {
		var a []interface{}
		var f strings.Builder
		for k := 0; k < n; k++ {
			f.WriteString([]string{"%v,", "%5s|", "%d ", "%-4q;"}[k%4])
			switch k % 4 {
			case 0, 2:
				a = append(a, secInt[v]+k)
			default:
				a = append(a, secPlain[v])
			}
		}
		return f.String() + "end", a
	}},
	{"[]int of n", func(n, v int) (string, []interface{}) {
		s := make([]int, n)
		for k := range s {
			s[k] = secInt[v] + k
		}
		return "%v|%d|%x", []interface{}{s, s, s}
	}},
	{"[]string of n", func(n, v int) (string, []interface{}) {
		s := make([]string, n)
		for k := range s {
			s[k] = secPlain[v]
		}
		return "%v|%q", []interface{}{s, s}
	}},
	{"[]interface{} of n", func(n, v int) (string, []interface{}) {
		s := make([]interface{}, n)
		for k := range s {
			if k%3 == 0 {
				s[k] = safeT("p")
			} else {
				s[k] = secStr[v]
			}
		}
		return "%v|%+v", []interface{}{s, s}
	}},
	{"map of n keys", func(n, v int) (string, []interface{}) {
		m := map[string]int{}
		for k := 0; k < n; k++ {
			m[fmt.Sprintf("%s%02d", secKeyA[v], k)] = secInt[v] + k
		}
		return "%v|%#v", []interface{}{m, m}
	}},
	{"string of n runes", func(n, v int) (string, []interface{}) {
		s := strings.Repeat([2]string{"a", "Z"}[v], n)
		return "%s|%10s|%-70s|%.3s|%q|%x", []interface{}{s, s, s, s, s, s}
	}},
	{"width n", func(n, v int) (string, []interface{}) {
		return fmt.Sprintf("%%%dd|%%-%ds|%%0%dd|%%%d.2f", n, n, n, n), []interface{}{secInt[v], secPlain[v], secInt[v], secF[v]}
	}},
	{"nesting depth n", func(n, v int) (string, []interface{}) {
		var x interface{} = secInt[v]
		for k := 0; k < n && k < 40; k++ {
			x = []interface{}{x}
		}
		return "%v", []interface{}{x}
	}},
}

func c04SprintArgs(args []interface{}) string {
	var r redact.RedactableString
	var s string
	_, panR := recoverTo(func() { r = redact.Sprint(args...) })
	_, panF := recoverTo(func() { s = fmt.Sprint(args...) })
	if panR != panF {
		return fmt.Sprintf("Sprint(%d operands): redact panics=%v, fmt panics=%v", len(args), panR, panF)
	}
	if got, want := Strip([]byte(r)), Esc([]byte(s)); !bytes.Equal(got, want) {
		return fmt.Sprintf("Sprint(%d operands): redact %q, stripped %q; fmt %q", len(args), r, got, want)
	}
	return ""
}

// the last three: a wide, zero-padded, signed integer AFTER the star directive (what a star operand leaves in the
// formatter - a negative precision, a huge width - meets the scratch-buffer arithmetic of the next directive)
var starFormats = []string{"a %*d z%s", "a %.*d z%s", "a %*.*d z%s", "a %-*x z%s", "a %+*.*f z%s", "a %[1]*d z%s", "a %.*d z%s %+070d", "a %*.*d z%s %#0100x", "a %+070.*d z%s % 080d"}

func starOperands() []interface{} {
	var r []interface{}
	for _, n := range []int64{0, 1, -1, 7, -7, 999999, 1000000, 1000001, -1000000, -1000001, 1<<31 - 1, -1 << 31, 1 << 31, 1<<63 - 1, -1 << 63, -1<<63 + 1} {
		r = append(r, int(n), n)
	}
	r = append(r, int8(-128), int16(300), int32(-5), uint(3), uint8(255), uint16(70), uint32(1<<32-1), uint64(1<<64-1), uint64(1<<63), uintptr(9), namedInt(4), "str", 2.5, nil, true)
	return r
}

func checkC04(c *Ctx) {
	u := fmtUniverse()
	sp := quickDirectives()
	if !c.Quick() {
		sp = fullDirectives()
	}
	c.Section("C04/directives", map[string]interface{}{"directives": sp.Size(), "values": len(u), "excluded": "%w; zero flag meeting a minus flag; width/precision on composites where an element panics before further elements (reference drift, DESIGN 5/C04)"}, sp.Size(), func(i int, w *Worker) {
		d := sp.Get(i)
		for vi := range u {
			w.Eval()
			if dt := c04Directive(d, &u[vi], w.SeenS); dt != "" {
				w.Fail("directive:"+u[vi].Name, map[string]interface{}{"D": d, "V": vi, "value": u[vi].Name}, dt)
			}
		}
		f, stars := d.Format()
		if i%997 == 0 {
			v := u[i%len(u)]
			recoverTo(func() {
				w.Sample(map[string]interface{}{"format": d.String(), "value": v.Name, "redact": q(string(redact.Sprintf(f, append(stars, v.Mk(0))...)))})
			})
		}
	})
	k := 3
	if !c.Quick() {
		k = 4
	}
	en := NewStrEnum(fmtTokens, k)
	al := c04ArgLists()
	c.Section("C04/programs", map[string]interface{}{"tokens": fmtTokens, "max_tokens": k, "arg_lists": len(al)}, en.Total, func(i int, w *Worker) {
		f := string(en.Get(i, nil))
		if excludedProgram(f) {
			w.Count("excluded_programs", 1)
			return
		}
		for ai := range al {
			w.Eval()
			if dt := c04Compare(f, al[ai], w.SeenS); dt != "" {
				w.Fail("program", map[string]interface{}{"F": []byte(f), "A": ai, "quoted": q(f)}, dt)
			}
		}
	})
	ifs := indexedFormats(c.Quick())
	ial := [][]interface{}{{4, 5, "six" + mEnd}, {"a", 2, 3.5}, {7}}
	c.Section("C04/indexed", map[string]interface{}{"formats": len(ifs), "arg_lists": len(ial), "what": "2- and 3-directive formats with explicit indexes, star/indexed-star widths, precisions, slow-path verbs"}, len(ifs), func(i int, w *Worker) {
		for ai := range ial {
			w.Eval()
			if dt := c04Compare(ifs[i], ial[ai], w.SeenS); dt != "" {
				w.Fail("indexed", map[string]interface{}{"F": []byte(ifs[i]), "A": 100 + ai, "quoted": q(ifs[i])}, dt)
			}
		}
	})
	nfs := numberFormats()
	c.Section("C04/number-formats", map[string]interface{}{"formats": len(nfs), "arg_lists": len(ial)}, len(nfs), func(i int, w *Worker) {
		if excludedProgram(nfs[i]) {
			return
		}
		for ai := range ial {
			w.Eval()
			if dt := c04Compare(nfs[i], ial[ai], w.SeenS); dt != "" {
				w.Fail("indexed", map[string]interface{}{"F": []byte(nfs[i]), "A": 100 + ai, "quoted": q(nfs[i])}, dt)
			}
		}
	})
	replayers["C04/number-formats"] = replayers["C04/indexed"]
	// systematic size family: operand counts, directive counts and container sizes 0..70
	c.Section("C04/sizes", map[string]interface{}{"sizes": "every n in 0..70", "shapes": len(sizeShapes)}, 71*len(sizeShapes), func(i int, w *Worker) {
		n, sh := i/len(sizeShapes), i%len(sizeShapes)
		f, args := sizeShapes[sh].Mk(n, 0)
		w.Eval()
		var dt string
		if f == "" {
			dt = c04SprintArgs(args)
		} else {
			dt = c04Compare(f, args, w.SeenS)
		}
		if dt != "" {
			w.Fail("sizes:"+sizeShapes[sh].Name, map[string]interface{}{"N": n, "Shape": sh}, dt)
		}
	})
	// the whole interesting domain of star operands (width and precision), all integer types
	so := starOperands()
	c.Section("C04/star-operands", map[string]interface{}{"operands": len(so), "formats": len(starFormats)}, len(so)*len(so), func(i int, w *Worker) {
		a, b := so[i/len(so)], so[i%len(so)]
		for _, f := range starFormats {
			w.Eval()
			args := []interface{}{a, b, 5, "tail" + mStart}
			if strings.Count(f, "*") == 1 {
				args = []interface{}{a, 5, "tail" + mStart}
			}
			if strings.Contains(f, "070") || strings.Contains(f, "0100") {
				args = append(args, 7)
			}
			if dt := c04Compare(f, args, w.SeenS); dt != "" {
				w.Fail("star-operands", map[string]interface{}{"F": f, "A": fmt.Sprintf("%T(%v)", a, a), "B": fmt.Sprintf("%T(%v)", b, b)}, dt)
			}
		}
	})
	md := midDirectives()
	pv := c04PairVals()
	nd := md.Size()
	vp := [][2]int{}
	for a := range pv {
		for b := range pv {
			if c.Quick() && (a+b)%3 != 0 {
				continue
			}
			vp = append(vp, [2]int{a, b})
		}
	}
	c.Section("C04/pairs", map[string]interface{}{"directives_each": nd, "value_pairs": len(vp), "pairing": "every ordered pair of mid-size directives; value pairs rotate so that every value pair meets every first directive"}, nd*nd, func(i int, w *Worker) {
		d1, d2 := md.Get(i/nd), md.Get(i%nd)
		p := vp[i%len(vp)]
		w.Eval()
		if dt := c04Pair(d1, d2, p[0], p[1]); dt != "" {
			w.Fail("pair", map[string]interface{}{"D1": d1, "D2": d2, "V1": p[0], "V2": p[1]}, dt)
		}
		w.Seen(uint64(i))
	})
	// two elements of every pair of kinds inside one composite under one directive: the formatter state (flags,
	// width, precision) the first element leaves behind is what the second is printed with
	el := c04Elems()
	es := c04ElemSpace(c.Quick())
	c.Section("C04/element-pairs", map[string]interface{}{"elements": len(el), "containers": 3, "directives": es.Size()}, es.Size(), func(i int, w *Worker) {
		d := es.Get(i)
		for a := range el {
			for b := range el {
				for ct := 0; ct < 3; ct++ {
					w.Eval()
					if dt := c04ElemPair(d, a, b, ct); dt != "" {
						w.Fail("element-pair", map[string]interface{}{"D": d, "A": a, "B": b, "Ct": ct}, dt)
					}
				}
			}
		}
		w.Seen(uint64(i))
	})
	se := NewSeqEnum(len(pv), 3)
	c.Section("C04/sprint", map[string]interface{}{"operand_values": len(pv), "max_operands": 3}, se.Total+1, func(i int, w *Worker) {
		var vs []int
		if i < se.Total {
			vs = se.Get(i, nil)
		}
		w.Eval()
		if dt := c04Sprint(vs); dt != "" {
			w.Fail("sprint", map[string]interface{}{"Vs": vs}, dt)
		}
		w.Seen(uint64(i))
	})
	c.Assume("the reference is this sandbox's fmt (go1.23.5); exclusions are the ones the property names plus the catchPanic width/precision drift of Go>=1.21 fmt (DESIGN 5/C04)")
}

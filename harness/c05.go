package main

import (
	"bytes"
	"encoding/json"
	"fmt"
	"reflect"
	"strings"

	redact "github.com/cockroachdb/redact"
	"github.com/cockroachdb/redact/internal/rfmt"
)

func init() {
	checks["C05"] = checkC05
	rules["C05"] = "span-marking differential against fmt: every scalar leaf in each of its classifications (unsafe, Safe(), SafeValue type, registered type, Unsafe(SafeValue), SafeFormatter) alone, in all ordered pairs at top level and inside []interface{}, map, struct, nested shapes, x directives valid for the operand, x registry configurations (3 groups of own types and the built-in types string, int, bool, float64); distinct = distinct outputs"
	replayers["C05/cells"] = func(c *Ctx, raw json.RawMessage) string {
		var cs c05Case
		json.Unmarshal(raw, &cs)
		c05SetConfig(cs.Config)
		defer rfmt.VerifResetSafeTypes()
		_, d := c05Eval(cs, nil)
		return d
	}
}

// --- leaves -------------------------------------------------------------------

type (
	regIntT    int                // registrable, no methods
	regStrT2   string             // registrable, no methods
	regStrerT  struct{ s string } // registrable, Stringer
	safeFloatT float64            // SafeValue
	safeBoolT  bool               // SafeValue
	safeStrerT struct{ s string } // SafeValue + Stringer
	c05pair    struct{ A, B interface{} }
	c05safeKey string
	// leaves whose own methods make them fit a slot of an interface type WITH methods
	intStrerT     int                  // unsafe, Stringer, integer kind (every verb applies)
	regIntStrerT  int                  // registrable, Stringer, integer kind
	safeIntStrerT int                  // SafeValue, Stringer, integer kind
	safeErrT      struct{ msg string } // SafeValue, error
)

type (
	regStructT struct {
		A string
		N int
	}
	regSliceT  []string
	regMapT    map[string]int
	safeMapT   map[string]int
	safeSliceT []int
	safePtrT   struct{ n int }
)

func (safeMapT) SafeValue()   {}
func (safeSliceT) SafeValue() {}
func (*safePtrT) SafeValue()  {}

// c05privT: typed fields reached by reflection; a reflect.Value taken from an unexported field cannot be turned
// into an interface, so everything that classifies "by interface" is unavailable for it - the type registry is not
type c05privT struct {
	Pub  regIntT
	priv regIntT
	name regStrT2
	st   regStrerT
	ds   dblSafeT
	n    int
	s    string
	sv   safeIntT
}

var c05privV = reflect.ValueOf(c05privT{7, 8, "nm", regStrerT{"rs"}, 3, 42, "str", 9})

var (
	c05IntVar  = 5
	c05IntPtr  = &c05IntVar
	c05PtrSafe = &safePtrT{1}
	c05MapSafe = safeMapT{"k": 1}
	c05SlSafe  = safeSliceT{1, 2}
	c05MapU    = map[string]int{"k": 1}
	c05ChanU   = make(chan int)
)

func (i intStrerT) String() string     { return fmt.Sprintf("%dt", int(i)) }
func (i regIntStrerT) String() string  { return fmt.Sprintf("%dr", int(i)) }
func (i safeIntStrerT) String() string { return fmt.Sprintf("%ds", int(i)) }
func (safeIntStrerT) SafeValue()       {}
func (safeErrT) SafeValue()            {}
func (e safeErrT) Error() string       { return "E<" + e.msg + ">" }

func (r regStrerT) String() string  { return "R<" + r.s + ">" }
func (safeFloatT) SafeValue()       {}
func (safeBoolT) SafeValue()        {}
func (safeStrerT) SafeValue()       {}
func (s safeStrerT) String() string { return "SS<" + s.s + ">" }
func (c05safeKey) SafeValue()       {}

var c05RegTypes = [][]reflect.Type{{reflect.TypeOf(regIntT(0)), reflect.TypeOf(dblSafeT(0)), reflect.TypeOf(dblSafeStrT{})}, {reflect.TypeOf(regStrT2(""))}, {reflect.TypeOf(regStrerT{}), reflect.TypeOf(regIntStrerT(0)), reflect.TypeOf(regStructT{}), reflect.TypeOf(regSliceT{}), reflect.TypeOf(regMapT{})},
	// built-in types can be registered too: then every plain operand of that exact type is safe, on every path
	{reflect.TypeOf(""), reflect.TypeOf(0), reflect.TypeOf(true), reflect.TypeOf(0.5)}}

func c05SetConfig(cfg int) {
	rfmt.VerifResetSafeTypes()
	for i, ts := range c05RegTypes {
		if cfg&(1<<i) != 0 {
			for _, t := range ts {
				redact.RegisterSafeType(t)
			}
		}
	}
}

// mark is the span marker used on the fmt side for every unsafe leaf.
type mark struct{ x interface{} }

func (m mark) Format(s fmt.State, verb rune) {
	s.Write([]byte{1})
	fmt.Fprintf(s, fmt.FormatString(s, verb), m.x)
	s.Write([]byte{2})
}

// markGoPtr is the fmt-side stand-in of an unsafe pointer-like leaf under %#v: Go syntax prints "(type)(address)";
// the type and the punctuation are structure, only the address is the value's extent.
type markGoPtr struct{ p interface{} }

func (m markGoPtr) Format(s fmt.State, verb rune) {
	v := reflect.ValueOf(m.p)
	if v.IsNil() {
		fmt.Fprintf(s, "(%s)(nil)", v.Type())
		return
	}
	fmt.Fprintf(s, "(%s)(\x01%#x\x02)", v.Type(), v.Pointer())
}

// These let a mark sit in a slot of type fmt.Stringer / error / SafeValue on the fmt side; fmt never calls
// them (Formatter comes first).
func (m mark) String() string { return "" }
func (m mark) Error() string  { return "" }
func (m mark) SafeValue()     {}

// sfLeaf: a SafeFormatter emitting a safe and an unsafe part (fmt sees its Format method).
type sfLeaf struct{ pub, sec string }

func (l sfLeaf) SafeFormat(p redact.SafePrinter, _ rune) {
	p.SafeString(redact.SafeString(l.pub))
	p.SafeString("7")
	p.UnsafeString(l.sec)
	p.SafeRune('.')
}
func (l sfLeaf) Format(s fmt.State, _ rune) { fmt.Fprintf(s, "%s7\x01%s\x02.", l.pub, l.sec) }

type c05Leaf struct {
	Name     string
	Redact   interface{} // operand on the redact side
	Fmt      interface{} // operand on the fmt side when the leaf is safe
	Safe     bool        // classification (may depend on the registry configuration)
	RegIdx   int         // >=0: safe iff registered in the configuration
	Stringer bool        // leaf only under verbs that call String()
	GoStr    bool        // leaf only under %#v (GoString)
	OnlyP    bool        // leaf only under %p (a map/slice/pointer, whose %v rendering is not one extent)
	OnlySafe bool        // composite leaf: evaluated only in configurations where it is safe as a whole
	TopOnly  bool        // pointer to a composite: prints its pointee at top level only
	SelfMark bool        // Fmt already brackets its own unsafe extent (used as is on the fmt side)
}

var c05LeafCache = c05MakeLeaves()

func c05Leaves() []c05Leaf { return c05LeafCache }

func c05MakeLeaves() []c05Leaf {
	var ls []c05Leaf
	add := func(l c05Leaf) { ls = append(ls, l) }
	scalars := []struct {
		name string
		v    interface{}
		sv   interface{} // SafeValue-typed counterpart (nil if none)
	}{
		{"bool", true, safeBoolT(true)},
		{"int", 42, safeIntT(42)},
		{"negint", -7, redact.SafeInt(-7)},
		{"uint8", uint8(200), nil},
		{"float64", 2.5, safeFloatT(2.5)},
		{"string", "str", safeT("str")},
		{"stringLF", "s1\ns2", redact.SafeString("s1\ns2")},
		{"stringEmpty", "", safeT("")},
		{"stringMarker", "m" + mStart + "k", safeT("m" + mStart + "k")},
		{"rune", 'x', redact.SafeRune('x')},
		{"namedInt", namedInt(7), nil},
		{"namedStr", namedStr("ns"), nil},
	}
	for _, s := range scalars {
		reg := -1
		switch s.v.(type) {
		case string, int, bool, float64:
			reg = 3 // safe iff the built-in type itself is registered
		}
		add(c05Leaf{Name: "unsafe " + s.name, Redact: s.v, Fmt: s.v, RegIdx: reg})
		add(c05Leaf{Name: "Safe(" + s.name + ")", Redact: redact.Safe(s.v), Fmt: s.v, Safe: true, RegIdx: -1})
		if s.sv != nil {
			add(c05Leaf{Name: "SafeValue " + s.name, Redact: s.sv, Fmt: s.sv, Safe: true, RegIdx: -1})
			add(c05Leaf{Name: "Unsafe(SafeValue " + s.name + ")", Redact: redact.Unsafe(s.sv), Fmt: s.sv, RegIdx: -1})
		}
	}
	add(c05Leaf{Name: "unsafe Stringer", Redact: strT{"sx"}, Fmt: strT{"sx"}, RegIdx: -1, Stringer: true})
	add(c05Leaf{Name: "Safe(Stringer)", Redact: redact.Safe(strT{"sx"}), Fmt: strT{"sx"}, Safe: true, RegIdx: -1, Stringer: true})
	add(c05Leaf{Name: "SafeValue Stringer", Redact: safeStrerT{"q"}, Fmt: safeStrerT{"q"}, Safe: true, RegIdx: -1, Stringer: true})
	add(c05Leaf{Name: "unsafe GoStringer", Redact: goT{"gs"}, Fmt: goT{"gs"}, RegIdx: -1, GoStr: true})
	add(c05Leaf{Name: "Safe(GoStringer)", Redact: redact.Safe(goT{"gs"}), Fmt: goT{"gs"}, Safe: true, RegIdx: -1, GoStr: true})
	add(c05Leaf{Name: "unsafe Formatter(io.WriteString)", Redact: fmtWST{"wp"}, Fmt: fmtWST{"wp"}, RegIdx: -1})
	add(c05Leaf{Name: "unsafe Formatter(Fprintf)", Redact: fmtT{"fp"}, Fmt: fmtT{"fp"}, RegIdx: -1})
	add(c05Leaf{Name: "registrable int", Redact: regIntT(5), Fmt: regIntT(5), RegIdx: 0})
	add(c05Leaf{Name: "registrable string", Redact: regStrT2("rg"), Fmt: regStrT2("rg"), RegIdx: 1})
	add(c05Leaf{Name: "registrable Stringer", Redact: regStrerT{"rs"}, Fmt: regStrerT{"rs"}, RegIdx: 2, Stringer: true})
	add(c05Leaf{Name: "unsafe int Stringer", Redact: intStrerT(7), Fmt: intStrerT(7), RegIdx: -1})
	add(c05Leaf{Name: "Safe(int Stringer)", Redact: redact.Safe(intStrerT(7)), Fmt: intStrerT(7), Safe: true, RegIdx: -1})
	add(c05Leaf{Name: "registrable int Stringer", Redact: regIntStrerT(255), Fmt: regIntStrerT(255), RegIdx: 2})
	add(c05Leaf{Name: "SafeValue int Stringer", Redact: safeIntStrerT(9), Fmt: safeIntStrerT(9), Safe: true, RegIdx: -1})
	add(c05Leaf{Name: "unsafe error", Redact: errT{"ue"}, Fmt: errT{"ue"}, RegIdx: -1, Stringer: true})
	add(c05Leaf{Name: "SafeValue error", Redact: safeErrT{"se"}, Fmt: safeErrT{"se"}, Safe: true, RegIdx: -1, Stringer: true})
	add(c05Leaf{Name: "SafeValue + registrable int", Redact: dblSafeT(6), Fmt: dblSafeT(6), Safe: true, RegIdx: -1})
	add(c05Leaf{Name: "SafeValue + registrable Stringer", Redact: dblSafeStrT{"d"}, Fmt: dblSafeStrT{"d"}, Safe: true, RegIdx: -1, Stringer: true})
	add(c05Leaf{Name: "Safe(SafeValue + registrable int)", Redact: redact.Safe(dblSafeT(6)), Fmt: dblSafeT(6), Safe: true, RegIdx: -1})
	add(c05Leaf{Name: "Unsafe(SafeValue + registrable int)", Redact: redact.Unsafe(dblSafeT(6)), Fmt: dblSafeT(6), RegIdx: -1})
	add(c05Leaf{Name: "Unsafe(registrable int)", Redact: redact.Unsafe(regIntT(5)), Fmt: regIntT(5), RegIdx: -1})
	// reflect.Value operands taken from struct fields (exported: interfaceable; unexported: not)
	add(c05Leaf{Name: "reflect.Value of exported field of registrable int type", Redact: c05privV.Field(0), Fmt: c05privV.Field(0), RegIdx: 0, TopOnly: true})
	add(c05Leaf{Name: "reflect.Value of unexported field of registrable int type", Redact: c05privV.Field(1), Fmt: c05privV.Field(1), RegIdx: 0, TopOnly: true})
	add(c05Leaf{Name: "reflect.Value of unexported field of registrable string type", Redact: c05privV.Field(2), Fmt: c05privV.Field(2), RegIdx: 1, TopOnly: true})
	add(c05Leaf{Name: "reflect.Value of unexported field of SafeValue+registrable type", Redact: c05privV.Field(4), Fmt: c05privV.Field(4), RegIdx: 0, TopOnly: true})
	add(c05Leaf{Name: "reflect.Value of unexported int field", Redact: c05privV.Field(5), Fmt: c05privV.Field(5), RegIdx: 3, TopOnly: true})
	add(c05Leaf{Name: "reflect.Value of unexported string field", Redact: c05privV.Field(6), Fmt: c05privV.Field(6), RegIdx: 3, TopOnly: true})
	// composite types registered as safe, by value and through a pointer (classification happens on the way down)
	add(c05Leaf{Name: "registrable struct", Redact: regStructT{"prod", 7}, Fmt: regStructT{"prod", 7}, RegIdx: 2, OnlySafe: true})
	add(c05Leaf{Name: "pointer to registrable struct", Redact: &regStructT{"prod", 7}, Fmt: &regStructT{"prod", 7}, RegIdx: 2, OnlySafe: true, TopOnly: true})
	add(c05Leaf{Name: "registrable slice type", Redact: regSliceT{"a", "b"}, Fmt: regSliceT{"a", "b"}, RegIdx: 2, OnlySafe: true})
	add(c05Leaf{Name: "pointer to registrable slice type", Redact: &regSliceT{"a", "b"}, Fmt: &regSliceT{"a", "b"}, RegIdx: 2, OnlySafe: true, TopOnly: true})
	add(c05Leaf{Name: "registrable map type", Redact: regMapT{"k": 1}, Fmt: regMapT{"k": 1}, RegIdx: 2, OnlySafe: true})
	add(c05Leaf{Name: "pointer to registrable map type", Redact: &regMapT{"k": 1}, Fmt: &regMapT{"k": 1}, RegIdx: 2, OnlySafe: true, TopOnly: true})
	add(c05Leaf{Name: "Safe(pointer to plain struct)", Redact: redact.Safe(&structInner{65, 66}), Fmt: &structInner{65, 66}, Safe: true, RegIdx: -1, TopOnly: true})
	// pointer-like kinds under %#v (Go syntax): "(type)(address)" - only the address is unsafe
	add(c05Leaf{Name: "unsafe *int under %#v", Redact: &c05IntVar, Fmt: markGoPtr{&c05IntVar}, RegIdx: -1, GoStr: true, SelfMark: true})
	add(c05Leaf{Name: "nil *int under %#v", Redact: (*int)(nil), Fmt: markGoPtr{(*int)(nil)}, RegIdx: -1, GoStr: true, SelfMark: true})
	add(c05Leaf{Name: "unsafe chan under %#v", Redact: c05ChanU, Fmt: markGoPtr{c05ChanU}, RegIdx: -1, GoStr: true, SelfMark: true})
	add(c05Leaf{Name: "unsafe **int under %#v", Redact: &c05IntPtr, Fmt: markGoPtr{&c05IntPtr}, RegIdx: -1, GoStr: true, SelfMark: true})
	// pointer-like kinds: %p prints their address through a path of its own
	add(c05Leaf{Name: "unsafe *int", Redact: &c05IntVar, Fmt: &c05IntVar, RegIdx: -1, OnlyP: true})
	add(c05Leaf{Name: "unsafe map", Redact: c05MapU, Fmt: c05MapU, RegIdx: -1, OnlyP: true})
	add(c05Leaf{Name: "unsafe chan", Redact: c05ChanU, Fmt: c05ChanU, RegIdx: -1, OnlyP: true})
	add(c05Leaf{Name: "Safe(*int)", Redact: redact.Safe(&c05IntVar), Fmt: &c05IntVar, Safe: true, RegIdx: -1, OnlyP: true})
	add(c05Leaf{Name: "SafeValue pointer", Redact: c05PtrSafe, Fmt: c05PtrSafe, Safe: true, RegIdx: -1, OnlyP: true})
	add(c05Leaf{Name: "SafeValue map", Redact: c05MapSafe, Fmt: c05MapSafe, Safe: true, RegIdx: -1, OnlyP: true})
	add(c05Leaf{Name: "SafeValue slice", Redact: c05SlSafe, Fmt: c05SlSafe, Safe: true, RegIdx: -1, OnlyP: true})
	add(c05Leaf{Name: "Unsafe(SafeValue pointer)", Redact: redact.Unsafe(c05PtrSafe), Fmt: c05PtrSafe, RegIdx: -1, OnlyP: true})
	add(c05Leaf{Name: "SafeFormatter", Redact: sfLeaf{"pub", "sec"}, Fmt: sfLeaf{"pub", "sec"}, Safe: true, RegIdx: -1})
	add(c05Leaf{Name: "nil", Redact: nil, Fmt: nil, Safe: true, RegIdx: -1})
	return ls
}

func (l *c05Leaf) isSafe(cfg int) bool {
	if l.RegIdx >= 0 {
		return cfg&(1<<l.RegIdx) != 0
	}
	return l.Safe
}

func (l *c05Leaf) fmtOperand(cfg int) interface{} {
	if l.isSafe(cfg) || l.SelfMark {
		return l.Fmt
	}
	return mark{l.Fmt}
}

// --- shapes -------------------------------------------------------------------

var c05Shapes = []struct {
	Name string
	Mk   func(a, b interface{}) []interface{} // operands for a directive pair "d1 lit d2" (top) or one directive
	Two  bool
}{
	{"top level, one operand", func(a, b interface{}) []interface{} { return []interface{}{a} }, false},
	{"top level, two operands", func(a, b interface{}) []interface{} { return []interface{}{a, b} }, true},
	{"[]interface{}", func(a, b interface{}) []interface{} { return []interface{}{[]interface{}{a, b}} }, false},
	{"map[safe key]interface{}", func(a, b interface{}) []interface{} {
		return []interface{}{map[c05safeKey]interface{}{"k1": a, "k2": b}}
	}, false},
	{"struct{A,B interface{}}", func(a, b interface{}) []interface{} { return []interface{}{c05pair{a, b}} }, false},
	{"&struct", func(a, b interface{}) []interface{} { return []interface{}{&c05pair{a, b}} }, false},
	{"nested depth 2", func(a, b interface{}) []interface{} {
		return []interface{}{[]interface{}{[]interface{}{a}, c05pair{b, nil}, a}}
	}, false},
	{"reflect.Value of []interface{}", func(a, b interface{}) []interface{} { return []interface{}{reflect.ValueOf([]interface{}{a, b})} }, false},
	// containers declared safe as a whole: every leaf is public, whatever its own classification
	{"Safe([]interface{}{a,b,a})", func(a, b interface{}) []interface{} { return []interface{}{redact.Safe([]interface{}{a, b, a})} }, false},
	{"Safe(struct{A,B})", func(a, b interface{}) []interface{} { return []interface{}{redact.Safe(c05pair{a, b})} }, false},
}

const c05FirstSafeShape = 8

// Typed shapes (Shape >= 100): the slot that holds the leaf has a static type other than interface{} — an
// interface WITH methods (fmt.Stringer, error, SafeValue) or the leaf's own concrete type. The classification of a
// leaf must not depend on the static type of the slot it sits in. Shape = 100 + 10*container + slot type.
var (
	c05SlotNames = []string{"fmt.Stringer", "error", "redact.SafeValue", "concrete"}
	c05SlotTypes = []reflect.Type{
		reflect.TypeOf((*fmt.Stringer)(nil)).Elem(),
		reflect.TypeOf((*error)(nil)).Elem(),
		reflect.TypeOf((*redact.SafeValue)(nil)).Elem(),
		nil,
	}
	c05ContNames = []string{"[]T{a,b}", "[2]T{a,b}", "map[safe key]T{a,b}", "map[T]safe{a:}", "struct{A,B T}", "&struct{A,B T}", "[]interface{}{[]T{a},b}"}
)

func c05TypedShapes() []int {
	var r []int
	for ct := range c05ContNames {
		for sl := range c05SlotNames {
			r = append(r, 100+10*ct+sl)
		}
	}
	return r
}

func c05ShapeName(sh int) string {
	if sh < 100 {
		return c05Shapes[sh].Name
	}
	return strings.Replace(c05ContNames[(sh-100)/10], "T", c05SlotNames[(sh-100)%10], -1)
}

// c05Typed builds the container for one side; ok=false when the leaves do not fit the slot type.
func c05Typed(sh int, a, b interface{}) (res interface{}, ok bool) {
	ct, sl := (sh-100)/10, (sh-100)%10
	T := c05SlotTypes[sl]
	if T == nil {
		if a == nil || b == nil || reflect.TypeOf(a) != reflect.TypeOf(b) {
			return nil, false
		}
		T = reflect.TypeOf(a)
		if !T.Comparable() && ct == 3 {
			return nil, false
		}
		if T.Kind() == reflect.Uint8 {
			return nil, false // a byte slice/array is one leaf, not a container (C02/C04 cover it)
		}
	}
	val := func(x interface{}) (reflect.Value, bool) {
		if x == nil {
			return reflect.Zero(T), T.Kind() == reflect.Interface
		}
		v := reflect.ValueOf(x)
		if !v.Type().AssignableTo(T) {
			return v, false
		}
		return v, true
	}
	av, ok1 := val(a)
	bv, ok2 := val(b)
	if !ok1 || !ok2 {
		return nil, false
	}
	defer func() {
		if recover() != nil {
			res, ok = nil, false
		}
	}()
	switch ct {
	case 0:
		s := reflect.MakeSlice(reflect.SliceOf(T), 2, 2)
		s.Index(0).Set(av)
		s.Index(1).Set(bv)
		return s.Interface(), true
	case 1:
		s := reflect.New(reflect.ArrayOf(2, T)).Elem()
		s.Index(0).Set(av)
		s.Index(1).Set(bv)
		return s.Interface(), true
	case 2:
		m := reflect.MakeMap(reflect.MapOf(reflect.TypeOf(c05safeKey("")), T))
		m.SetMapIndex(reflect.ValueOf(c05safeKey("k1")), av)
		m.SetMapIndex(reflect.ValueOf(c05safeKey("k2")), bv)
		return m.Interface(), true
	case 3:
		m := reflect.MakeMap(reflect.MapOf(T, reflect.TypeOf(c05safeKey(""))))
		m.SetMapIndex(av, reflect.ValueOf(c05safeKey("v")))
		return m.Interface(), true
	case 4, 5:
		st := reflect.New(reflect.StructOf([]reflect.StructField{{Name: "A", Type: T}, {Name: "B", Type: T}}))
		st.Elem().Field(0).Set(av)
		st.Elem().Field(1).Set(bv)
		if ct == 5 {
			return st.Interface(), true
		}
		return st.Elem().Interface(), true
	default:
		s := reflect.MakeSlice(reflect.SliceOf(T), 1, 1)
		s.Index(0).Set(av)
		return []interface{}{s.Interface(), b}, true
	}
}

type c05Case struct {
	Config int       `json:"registry_config"`
	Shape  int       `json:"shape"`
	A, B   int       `json:"-"`
	LA     int       `json:"leaf_a"`
	LB     int       `json:"leaf_b"`
	D      Directive `json:"directive"`
	D2     Directive `json:"directive2"`
}

func replaceSpans(s []byte) []byte {
	var out []byte
	in := false
	for _, b := range s {
		switch {
		case b == 1:
			in = true
		case b == 2:
			in = false
		case in:
			if b == '\n' {
				out = append(out, b)
			}
		default:
			out = append(out, b)
		}
	}
	return out
}

func stringerVerb(d Directive) bool {
	if d.Verb == 'v' {
		return d.Flags&4 == 0 // not %#v
	}
	return strings.ContainsRune("sqxX", d.Verb)
}

// c05Eval returns (class, detail)
func c05Eval(cs c05Case, seen func(string)) (string, string) {
	leaves := c05Leaves()
	la, lb := &leaves[cs.LA], &leaves[cs.LB]
	sh := c05Shapes[0]
	if cs.Shape < 100 {
		sh = c05Shapes[cs.Shape]
	} else {
		sh.Name = c05ShapeName(cs.Shape)
	}
	ds := []Directive{cs.D}
	if sh.Two {
		ds = append(ds, cs.D2)
	}
	for _, d := range ds {
		if d.Verb == 'T' || d.Verb == 'w' || d.zeroMeetsMinus() {
			return "", ""
		}
		if (la.OnlySafe && !la.isSafe(cs.Config)) || (lb.OnlySafe && !lb.isSafe(cs.Config) && (sh.Two || cs.Shape >= 2)) {
			return "", ""
		}
		if (la.TopOnly || lb.TopOnly) && cs.Shape >= 2 {
			return "", "" // inside a container a pointer prints as an address
		}
		if (d.Verb == 'p') != (la.OnlyP || (lb.OnlyP && (sh.Two || cs.Shape >= 2))) {
			return "", "" // %p only for the pointer-like leaves, and those only under %p
		}
		if d.Verb == 'p' && (cs.Shape >= 2 || (sh.Two && !(la.OnlyP && lb.OnlyP))) {
			return "", "" // %p applies to a top-level pointer-like operand only
		}
		if (la.Stringer || (lb.Stringer && (sh.Two || cs.Shape >= 2))) && !stringerVerb(d) {
			return "", ""
		}
		if (la.GoStr || (lb.GoStr && (sh.Two || cs.Shape >= 2))) && !(d.Verb == 'v' && d.Flags&4 != 0) {
			return "", ""
		}
		if (la.SelfMark || (lb.SelfMark && (sh.Two || cs.Shape >= 2))) && (d.Wid != 0 || d.Prec != 0 || d.Flags&^4 != 0) {
			return "", "" // the stand-in reproduces plain %#v only
		}
	}
	var format string
	var rargs, fargs []interface{}
	f1, s1 := cs.D.Format()
	var ra, fa []interface{}
	if cs.Shape >= 100 {
		if (cs.Shape-100)%10 == 3 && cs.D.Verb == 'v' && cs.D.Flags&4 != 0 {
			return "", "" // %#v prints the concrete slot type's name, which differs on the fmt side
		}
		r, ok1 := c05Typed(cs.Shape, la.Redact, lb.Redact)
		f, ok2 := c05Typed(cs.Shape, la.fmtOperand(cs.Config), lb.fmtOperand(cs.Config))
		if !ok1 || !ok2 {
			return "", ""
		}
		ra, fa = []interface{}{r}, []interface{}{f}
	} else {
		ra = sh.Mk(la.Redact, lb.Redact)
		fa = sh.Mk(la.fmtOperand(cs.Config), lb.fmtOperand(cs.Config))
	}
	if cs.Shape >= c05FirstSafeShape && cs.Shape < 100 {
		// fmt sees the bare container (Safe() prints like its operand under fmt, C14) with bare leaves;
		// a leaf that is itself Unsafe(...) is skipped: inside Safe() the outermost wrapper decides (C06)
		// (a leaf that is itself Unsafe(...) is public too: inside a value declared safe as a whole the outermost declaration decides)
		if la.Name == "SafeFormatter" || lb.Name == "SafeFormatter" || la.SelfMark || lb.SelfMark {
			return "", ""
		}
		switch cs.Shape {
		case c05FirstSafeShape:
			fa = []interface{}{[]interface{}{la.Fmt, lb.Fmt, la.Fmt}}
		default:
			fa = []interface{}{c05pair{la.Fmt, lb.Fmt}}
		}
	}
	if sh.Two {
		f2, s2 := cs.D2.Format()
		format = "a" + f1 + " lit " + f2 + "z"
		rargs = append(append(append(append(rargs, s1...), ra[0]), s2...), ra[1])
		fargs = append(append(append(append(fargs, s1...), fa[0]), s2...), fa[1])
	} else {
		format = "<" + f1 + ">"
		rargs = append(append(rargs, s1...), ra[0])
		fargs = append(append(fargs, s1...), fa[0])
	}
	var ref string
	if _, pan := recoverTo(func() { ref = fmt.Sprintf(format, fargs...) }); pan {
		return "", ""
	}
	if strings.Contains(ref, "%!") {
		return "", "" // verb not valid for the operand
	}
	var out redact.RedactableString
	if pv, pan := recoverTo(func() { out = redact.Sprintf(format, rargs...) }); pan {
		return "panic", fmt.Sprintf("Sprintf(%q, ...) panics: %v", format, pv)
	}
	if seen != nil {
		seen(string(out))
	}
	o := []byte(out)
	if !WF(o) {
		return "", "" // C01's business
	}
	got := EnvDel(o)
	want := Esc(replaceSpans([]byte(ref)))
	if bytes.Equal(got, want) {
		if cs.Config == 0 || format == "<%v>" {
			if d := c05Routes(cs, format, rargs, want); d != "" {
				return "route:" + sh.Name, d
			}
		}
		return "", ""
	}
	desc := fmt.Sprintf("registry config %04b, shape %q, leaves (%s, %s): Sprintf(%q) = %q; outside envelopes %q, want %q (fmt with unsafe extents removed; fmt printed %q)", cs.Config, sh.Name, la.Name, lb.Name, format, out, got, want, ref)
	return "cell:" + sh.Name, desc
}

// c05Routes: the same cell through the other printing routes (a printer handed to a function: Printf with the whole
// format; for the bare %v also Print with the operand alone and with a neighbour). Classification is a matter of
// the value, not of the entry point.
func c05Routes(cs c05Case, format string, rargs []interface{}, want []byte) string {
	var outs []redact.RedactableString
	var names []string
	if _, pan := recoverTo(func() {
		outs = append(outs, redact.Sprintfn(func(w redact.SafePrinter) { w.Printf(format, rargs...) }))
		names = append(names, "Sprintfn{Printf(format, ...)}")
		if format == "<%v>" && len(rargs) == 1 {
			outs = append(outs, redact.Sprintfn(func(w redact.SafePrinter) { w.SafeString("<"); w.Print(rargs[0]); w.SafeString(">") }))
			names = append(names, "Sprintfn{SafeString(<) Print(x) SafeString(>)}")
			outs = append(outs, redact.Sprintfn(func(w redact.SafePrinter) { w.Print(redact.Safe("<"), rargs[0], redact.Safe(">")) }))
			names = append(names, "Sprintfn{Print(Safe(<), x, Safe(>))}")
		}
	}); pan {
		return ""
	}
	for i, out := range outs {
		o := []byte(out)
		if !WF(o) {
			continue
		}
		got := EnvDel(o)
		if i == 2 {
			got = bytes.ReplaceAll(got, []byte(" "), nil) // Print puts spaces between operands
			if bytes.Equal(got, bytes.ReplaceAll(want, []byte(" "), nil)) {
				continue
			}
		}
		if !bytes.Equal(got, want) {
			return fmt.Sprintf("registry config %04b, shape %d: %s = %q; outside envelopes %q, want %q as through Sprintf(%q)", cs.Config, cs.Shape, names[i], out, got, want, format)
		}
	}
	return ""
}

func checkC05(c *Ctx) {
	leaves := c05Leaves()
	nl := len(leaves)
	dsOne := quickDirectives()
	dsPair := midDirectives()
	configs := []int{0, 7, 15}
	if !c.Quick() {
		dsPair = quickDirectives()
		dsPair.Wids = []int{0, 3}
		configs = append(seq(8), 8, 15)
	}
	top2 := DirectiveSpace{FlagSets: []int{0, 4}, Wids: []int{0, 3}, Precs: []int{0}, Verbs: []rune("vdsxq")}
	if !c.Quick() {
		top2 = DirectiveSpace{FlagSets: []int{0, 1, 4, 16}, Wids: []int{0, 3}, Precs: []int{0, 3}, Verbs: []rune("vdsxqf")}
	}
	// second leaf of a pair: in quick a representative subset (one per classification), in thorough all
	var second []int
	for i, l := range leaves {
		if !c.Quick() || strings.HasSuffix(l.Name, " int") || strings.HasSuffix(l.Name, "(int)") || strings.HasSuffix(l.Name, "int)") || strings.Contains(l.Name, "stringLF") || strings.Contains(l.Name, "Stringer") || l.Name == "SafeFormatter" || l.Name == "nil" {
			second = append(second, i)
		}
	}
	for _, cfg := range configs {
		cfg := cfg
		c05SetConfig(cfg)
		// (shape, second leaf) combinations whose leaves fit the slot type on both sides
		typedFit := make([][][2]int, nl)
		nFit := 0
		for a := 0; a < nl; a++ {
			for b := 0; b < nl; b++ {
				for _, sh := range c05TypedShapes() {
					_, ok1 := c05Typed(sh, leaves[a].Redact, leaves[b].Redact)
					_, ok2 := c05Typed(sh, leaves[a].fmtOperand(cfg), leaves[b].fmtOperand(cfg))
					if ok1 && ok2 {
						typedFit[a] = append(typedFit[a], [2]int{sh, b})
						nFit++
					}
				}
			}
		}
		// one operand, full quick directive space
		c.Section(fmt.Sprintf("C05/cells/cfg%04b/single", cfg), map[string]interface{}{"leaves": nl, "directives": dsOne.Size(), "registry_config": cfg}, dsOne.Size(), func(i int, w *Worker) {
			d := dsOne.Get(i)
			for a := 0; a < nl; a++ {
				cs := c05Case{Config: cfg, Shape: 0, LA: a, LB: a, D: d}
				w.Eval()
				if cl, dt := c05Eval(cs, w.SeenS); dt != "" {
					w.Fail(cl, cs, dt)
				}
			}
		})
		// containers: all ordered pairs of leaves
		c.Section(fmt.Sprintf("C05/cells/cfg%04b/shapes", cfg), map[string]interface{}{"leaves": nl, "second_leaves": len(second), "shapes": len(c05Shapes) - 2, "typed_slot_cases": nFit, "directives": dsPair.Size(), "registry_config": cfg}, dsPair.Size()*nl, func(i int, w *Worker) {
			d := dsPair.Get(i / nl)
			a := i % nl
			for _, b := range second {
				for sh := 2; sh < len(c05Shapes); sh++ {
					cs := c05Case{Config: cfg, Shape: sh, LA: a, LB: b, D: d}
					w.Eval()
					if cl, dt := c05Eval(cs, w.SeenS); dt != "" {
						w.Fail(cl, cs, dt)
					}
				}
			}
			// slots of an interface type with methods / of the leaf's concrete type: all leaves as second
			for _, t := range typedFit[a] {
				cs := c05Case{Config: cfg, Shape: t[0], LA: a, LB: t[1], D: d}
				w.Eval()
				if cl, dt := c05Eval(cs, w.SeenS); dt != "" {
					w.Fail(cl, cs, dt)
				}
			}
			if i%3001 == 0 {
				cs := c05Case{Config: cfg, Shape: 2, LA: a, LB: (a + 1) % nl, D: d}
				f, st := d.Format()
				recoverTo(func() {
					w.Sample(map[string]interface{}{"case": cs, "leaves": []string{leaves[cs.LA].Name, leaves[cs.LB].Name}, "out": q(string(redact.Sprintf(f, append(st, []interface{}{leaves[cs.LA].Redact, leaves[cs.LB].Redact})...)))})
				})
			}
		})
		// two top-level operands: restore logic between operands
		n2 := top2.Size()
		c.Section(fmt.Sprintf("C05/cells/cfg%04b/top2", cfg), map[string]interface{}{"leaves": nl, "second_leaves": len(second), "directive_pairs": n2 * n2, "registry_config": cfg}, n2*n2, func(i int, w *Worker) {
			d1, d2 := top2.Get(i/n2), top2.Get(i%n2)
			for a := 0; a < nl; a++ {
				for _, b := range second {
					cs := c05Case{Config: cfg, Shape: 1, LA: a, LB: b, D: d1, D2: d2}
					w.Eval()
					if cl, dt := c05Eval(cs, w.SeenS); dt != "" {
						w.Fail(cl, cs, dt)
					}
				}
			}
		})
	}
	rfmt.VerifResetSafeTypes()
	c.Assume("unsafe leaves are scalars and a Stringer (under the verbs that call String); []byte, complex numbers and pointers are composites whose punctuation is structural and are left to C02/C04; directives are kept only when fmt reports no %! for the operands")
}

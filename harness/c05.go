package main

import (
	"bytes"
	"encoding/json"
	"fmt"
	"reflect"
	"strings"

	redact "github.com/cockroachdb/redact"
	"github.com/cockroachdb/redact/internal/rfmt"
)

func init() {
	checks["C05"] = checkC05
	rules["C05"] = "span-marking differential against fmt: every scalar leaf in each of its classifications (unsafe, Safe(), SafeValue type, registered type, Unsafe(SafeValue), SafeFormatter) alone, in all ordered pairs at top level and inside []interface{}, map, struct, nested shapes, x directives valid for the operand, x all 8 registry configurations; distinct = distinct outputs"
	replayers["C05/cells"] = func(c *Ctx, raw json.RawMessage) string {
		var cs c05Case
		json.Unmarshal(raw, &cs)
		c05SetConfig(cs.Config)
		defer rfmt.VerifResetSafeTypes()
		_, d := c05Eval(cs, nil)
		return d
	}
}

// --- leaves -------------------------------------------------------------------

type (
	regIntT    int                // registrable, no methods
	regStrT2   string             // registrable, no methods
	regStrerT  struct{ s string } // registrable, Stringer
	safeFloatT float64            // SafeValue
	safeBoolT  bool               // SafeValue
	safeStrerT struct{ s string } // SafeValue + Stringer
	c05pair    struct{ A, B interface{} }
	c05safeKey string
)

func (r regStrerT) String() string  { return "R<" + r.s + ">" }
func (safeFloatT) SafeValue()       {}
func (safeBoolT) SafeValue()        {}
func (safeStrerT) SafeValue()       {}
func (s safeStrerT) String() string { return "SS<" + s.s + ">" }
func (c05safeKey) SafeValue()       {}

var c05RegTypes = []reflect.Type{reflect.TypeOf(regIntT(0)), reflect.TypeOf(regStrT2("")), reflect.TypeOf(regStrerT{})}

func c05SetConfig(cfg int) {
	rfmt.VerifResetSafeTypes()
	for i, t := range c05RegTypes {
		if cfg&(1<<i) != 0 {
			redact.RegisterSafeType(t)
		}
	}
}

// mark is the span marker used on the fmt side for every unsafe leaf.
type mark struct{ x interface{} }

func (m mark) Format(s fmt.State, verb rune) {
	s.Write([]byte{1})
	fmt.Fprintf(s, fmt.FormatString(s, verb), m.x)
	s.Write([]byte{2})
}

// sfLeaf: a SafeFormatter emitting a safe and an unsafe part (fmt sees its Format method).
type sfLeaf struct{ pub, sec string }

func (l sfLeaf) SafeFormat(p redact.SafePrinter, _ rune) {
	p.SafeString(redact.SafeString(l.pub))
	p.SafeString("7")
	p.UnsafeString(l.sec)
	p.SafeRune('.')
}
func (l sfLeaf) Format(s fmt.State, _ rune) { fmt.Fprintf(s, "%s7\x01%s\x02.", l.pub, l.sec) }

type c05Leaf struct {
	Name     string
	Redact   interface{} // operand on the redact side
	Fmt      interface{} // operand on the fmt side when the leaf is safe
	Safe     bool        // classification (may depend on the registry configuration)
	RegIdx   int         // >=0: safe iff registered in the configuration
	Stringer bool        // leaf only under verbs that call String()
}

var c05LeafCache = c05MakeLeaves()

func c05Leaves() []c05Leaf { return c05LeafCache }

func c05MakeLeaves() []c05Leaf {
	var ls []c05Leaf
	add := func(l c05Leaf) { ls = append(ls, l) }
	scalars := []struct {
		name string
		v    interface{}
		sv   interface{} // SafeValue-typed counterpart (nil if none)
	}{
		{"bool", true, safeBoolT(true)},
		{"int", 42, safeIntT(42)},
		{"negint", -7, redact.SafeInt(-7)},
		{"uint8", uint8(200), nil},
		{"float64", 2.5, safeFloatT(2.5)},
		{"string", "str", safeT("str")},
		{"stringLF", "s1\ns2", redact.SafeString("s1\ns2")},
		{"stringEmpty", "", safeT("")},
		{"stringMarker", "m" + mStart + "k", safeT("m" + mStart + "k")},
		{"rune", 'x', redact.SafeRune('x')},
		{"namedInt", namedInt(7), nil},
		{"namedStr", namedStr("ns"), nil},
	}
	for _, s := range scalars {
		add(c05Leaf{Name: "unsafe " + s.name, Redact: s.v, Fmt: s.v, RegIdx: -1})
		add(c05Leaf{Name: "Safe(" + s.name + ")", Redact: redact.Safe(s.v), Fmt: s.v, Safe: true, RegIdx: -1})
		if s.sv != nil {
			add(c05Leaf{Name: "SafeValue " + s.name, Redact: s.sv, Fmt: s.sv, Safe: true, RegIdx: -1})
			add(c05Leaf{Name: "Unsafe(SafeValue " + s.name + ")", Redact: redact.Unsafe(s.sv), Fmt: s.sv, RegIdx: -1})
		}
	}
	add(c05Leaf{Name: "unsafe Stringer", Redact: strT{"sx"}, Fmt: strT{"sx"}, RegIdx: -1, Stringer: true})
	add(c05Leaf{Name: "Safe(Stringer)", Redact: redact.Safe(strT{"sx"}), Fmt: strT{"sx"}, Safe: true, RegIdx: -1, Stringer: true})
	add(c05Leaf{Name: "SafeValue Stringer", Redact: safeStrerT{"q"}, Fmt: safeStrerT{"q"}, Safe: true, RegIdx: -1, Stringer: true})
	add(c05Leaf{Name: "unsafe Formatter(io.WriteString)", Redact: fmtWST{"wp"}, Fmt: fmtWST{"wp"}, RegIdx: -1})
	add(c05Leaf{Name: "unsafe Formatter(Fprintf)", Redact: fmtT{"fp"}, Fmt: fmtT{"fp"}, RegIdx: -1})
	add(c05Leaf{Name: "registrable int", Redact: regIntT(5), Fmt: regIntT(5), RegIdx: 0})
	add(c05Leaf{Name: "registrable string", Redact: regStrT2("rg"), Fmt: regStrT2("rg"), RegIdx: 1})
	add(c05Leaf{Name: "registrable Stringer", Redact: regStrerT{"rs"}, Fmt: regStrerT{"rs"}, RegIdx: 2, Stringer: true})
	add(c05Leaf{Name: "Unsafe(registrable int)", Redact: redact.Unsafe(regIntT(5)), Fmt: regIntT(5), RegIdx: -1})
	add(c05Leaf{Name: "SafeFormatter", Redact: sfLeaf{"pub", "sec"}, Fmt: sfLeaf{"pub", "sec"}, Safe: true, RegIdx: -1})
	add(c05Leaf{Name: "nil", Redact: nil, Fmt: nil, Safe: true, RegIdx: -1})
	return ls
}

func (l *c05Leaf) isSafe(cfg int) bool {
	if l.RegIdx >= 0 {
		return cfg&(1<<l.RegIdx) != 0
	}
	return l.Safe
}

func (l *c05Leaf) fmtOperand(cfg int) interface{} {
	if l.isSafe(cfg) {
		return l.Fmt
	}
	return mark{l.Fmt}
}

// --- shapes -------------------------------------------------------------------

var c05Shapes = []struct {
	Name string
	Mk   func(a, b interface{}) []interface{} // operands for a directive pair "d1 lit d2" (top) or one directive
	Two  bool
}{
	{"top level, one operand", func(a, b interface{}) []interface{} { return []interface{}{a} }, false},
	{"top level, two operands", func(a, b interface{}) []interface{} { return []interface{}{a, b} }, true},
	{"[]interface{}", func(a, b interface{}) []interface{} { return []interface{}{[]interface{}{a, b}} }, false},
	{"map[safe key]interface{}", func(a, b interface{}) []interface{} {
		return []interface{}{map[c05safeKey]interface{}{"k1": a, "k2": b}}
	}, false},
	{"struct{A,B interface{}}", func(a, b interface{}) []interface{} { return []interface{}{c05pair{a, b}} }, false},
	{"&struct", func(a, b interface{}) []interface{} { return []interface{}{&c05pair{a, b}} }, false},
	{"nested depth 2", func(a, b interface{}) []interface{} {
		return []interface{}{[]interface{}{[]interface{}{a}, c05pair{b, nil}, a}}
	}, false},
	{"reflect.Value of []interface{}", func(a, b interface{}) []interface{} { return []interface{}{reflect.ValueOf([]interface{}{a, b})} }, false},
	// containers declared safe as a whole: every leaf is public, whatever its own classification
	{"Safe([]interface{}{a,b,a})", func(a, b interface{}) []interface{} { return []interface{}{redact.Safe([]interface{}{a, b, a})} }, false},
	{"Safe(struct{A,B})", func(a, b interface{}) []interface{} { return []interface{}{redact.Safe(c05pair{a, b})} }, false},
}

const c05FirstSafeShape = 8

type c05Case struct {
	Config int       `json:"registry_config"`
	Shape  int       `json:"shape"`
	A, B   int       `json:"-"`
	LA     int       `json:"leaf_a"`
	LB     int       `json:"leaf_b"`
	D      Directive `json:"directive"`
	D2     Directive `json:"directive2"`
}

func replaceSpans(s []byte) []byte {
	var out []byte
	in := false
	for _, b := range s {
		switch {
		case b == 1:
			in = true
		case b == 2:
			in = false
		case in:
			if b == '\n' {
				out = append(out, b)
			}
		default:
			out = append(out, b)
		}
	}
	return out
}

func stringerVerb(d Directive) bool {
	if d.Verb == 'v' {
		return d.Flags&4 == 0 // not %#v
	}
	return strings.ContainsRune("sqxX", d.Verb)
}

// c05Eval returns (class, detail)
func c05Eval(cs c05Case, seen func(string)) (string, string) {
	leaves := c05Leaves()
	la, lb := &leaves[cs.LA], &leaves[cs.LB]
	sh := c05Shapes[cs.Shape]
	ds := []Directive{cs.D}
	if sh.Two {
		ds = append(ds, cs.D2)
	}
	for _, d := range ds {
		if d.Verb == 'T' || d.Verb == 'p' || d.Verb == 'w' || d.zeroMeetsMinus() {
			return "", ""
		}
		if (la.Stringer || (lb.Stringer && (sh.Two || cs.Shape >= 2))) && !stringerVerb(d) {
			return "", ""
		}
	}
	var format string
	var rargs, fargs []interface{}
	f1, s1 := cs.D.Format()
	ra := sh.Mk(la.Redact, lb.Redact)
	fa := sh.Mk(la.fmtOperand(cs.Config), lb.fmtOperand(cs.Config))
	if cs.Shape >= c05FirstSafeShape {
		// fmt sees the bare container (Safe() prints like its operand under fmt, C14) with bare leaves;
		// a leaf that is itself Unsafe(...) is skipped: inside Safe() the outermost wrapper decides (C06)
		// (a leaf that is itself Unsafe(...) is public too: inside a value declared safe as a whole the outermost declaration decides)
		if la.Name == "SafeFormatter" || lb.Name == "SafeFormatter" {
			return "", ""
		}
		switch cs.Shape {
		case c05FirstSafeShape:
			fa = []interface{}{[]interface{}{la.Fmt, lb.Fmt, la.Fmt}}
		default:
			fa = []interface{}{c05pair{la.Fmt, lb.Fmt}}
		}
	}
	if sh.Two {
		f2, s2 := cs.D2.Format()
		format = "a" + f1 + " lit " + f2 + "z"
		rargs = append(append(append(append(rargs, s1...), ra[0]), s2...), ra[1])
		fargs = append(append(append(append(fargs, s1...), fa[0]), s2...), fa[1])
	} else {
		format = "<" + f1 + ">"
		rargs = append(append(rargs, s1...), ra[0])
		fargs = append(append(fargs, s1...), fa[0])
	}
	var ref string
	if _, pan := recoverTo(func() { ref = fmt.Sprintf(format, fargs...) }); pan {
		return "", ""
	}
	if strings.Contains(ref, "%!") {
		return "", "" // verb not valid for the operand
	}
	var out redact.RedactableString
	if pv, pan := recoverTo(func() { out = redact.Sprintf(format, rargs...) }); pan {
		return "panic", fmt.Sprintf("Sprintf(%q, ...) panics: %v", format, pv)
	}
	if seen != nil {
		seen(string(out))
	}
	o := []byte(out)
	if !WF(o) {
		return "", "" // C01's business
	}
	got := EnvDel(o)
	want := Esc(replaceSpans([]byte(ref)))
	if bytes.Equal(got, want) {
		return "", ""
	}
	desc := fmt.Sprintf("registry config %03b, shape %q, leaves (%s, %s): Sprintf(%q) = %q; outside envelopes %q, want %q (fmt with unsafe extents removed; fmt printed %q)", cs.Config, sh.Name, la.Name, lb.Name, format, out, got, want, ref)
	return "cell:" + sh.Name, desc
}

func checkC05(c *Ctx) {
	leaves := c05Leaves()
	nl := len(leaves)
	dsOne := quickDirectives()
	dsPair := midDirectives()
	configs := []int{0, 7}
	if !c.Quick() {
		dsPair = quickDirectives()
		dsPair.Wids = []int{0, 3}
		configs = seq(8)
	}
	top2 := DirectiveSpace{FlagSets: []int{0, 4}, Wids: []int{0, 3}, Precs: []int{0}, Verbs: []rune("vdsxq")}
	if !c.Quick() {
		top2 = DirectiveSpace{FlagSets: []int{0, 1, 4, 16}, Wids: []int{0, 3}, Precs: []int{0, 3}, Verbs: []rune("vdsxqf")}
	}
	// second leaf of a pair: in quick a representative subset (one per classification), in thorough all
	var second []int
	for i, l := range leaves {
		if !c.Quick() || strings.HasSuffix(l.Name, " int") || strings.HasSuffix(l.Name, "(int)") || strings.HasSuffix(l.Name, "int)") || strings.Contains(l.Name, "stringLF") || strings.Contains(l.Name, "Stringer") || l.Name == "SafeFormatter" || l.Name == "nil" {
			second = append(second, i)
		}
	}
	for _, cfg := range configs {
		cfg := cfg
		c05SetConfig(cfg)
		// one operand, full quick directive space
		c.Section(fmt.Sprintf("C05/cells/cfg%03b/single", cfg), map[string]interface{}{"leaves": nl, "directives": dsOne.Size(), "registry_config": cfg}, dsOne.Size(), func(i int, w *Worker) {
			d := dsOne.Get(i)
			for a := 0; a < nl; a++ {
				cs := c05Case{Config: cfg, Shape: 0, LA: a, LB: a, D: d}
				w.Eval()
				if cl, dt := c05Eval(cs, w.SeenS); dt != "" {
					w.Fail(cl, cs, dt)
				}
			}
		})
		// containers: all ordered pairs of leaves
		c.Section(fmt.Sprintf("C05/cells/cfg%03b/shapes", cfg), map[string]interface{}{"leaves": nl, "second_leaves": len(second), "shapes": len(c05Shapes) - 2, "directives": dsPair.Size(), "registry_config": cfg}, dsPair.Size()*nl, func(i int, w *Worker) {
			d := dsPair.Get(i / nl)
			a := i % nl
			for _, b := range second {
				for sh := 2; sh < len(c05Shapes); sh++ {
					cs := c05Case{Config: cfg, Shape: sh, LA: a, LB: b, D: d}
					w.Eval()
					if cl, dt := c05Eval(cs, w.SeenS); dt != "" {
						w.Fail(cl, cs, dt)
					}
				}
			}
			if i%3001 == 0 {
				cs := c05Case{Config: cfg, Shape: 2, LA: a, LB: (a + 1) % nl, D: d}
				f, st := d.Format()
				recoverTo(func() {
					w.Sample(map[string]interface{}{"case": cs, "leaves": []string{leaves[cs.LA].Name, leaves[cs.LB].Name}, "out": q(string(redact.Sprintf(f, append(st, []interface{}{leaves[cs.LA].Redact, leaves[cs.LB].Redact})...)))})
				})
			}
		})
		// two top-level operands: restore logic between operands
		n2 := top2.Size()
		c.Section(fmt.Sprintf("C05/cells/cfg%03b/top2", cfg), map[string]interface{}{"leaves": nl, "second_leaves": len(second), "directive_pairs": n2 * n2, "registry_config": cfg}, n2*n2, func(i int, w *Worker) {
			d1, d2 := top2.Get(i/n2), top2.Get(i%n2)
			for a := 0; a < nl; a++ {
				for _, b := range second {
					cs := c05Case{Config: cfg, Shape: 1, LA: a, LB: b, D: d1, D2: d2}
					w.Eval()
					if cl, dt := c05Eval(cs, w.SeenS); dt != "" {
						w.Fail(cl, cs, dt)
					}
				}
			}
		})
	}
	rfmt.VerifResetSafeTypes()
	c.Assume("unsafe leaves are scalars and a Stringer (under the verbs that call String); []byte, complex numbers and pointers are composites whose punctuation is structural and are left to C02/C04; directives are kept only when fmt reports no %! for the operands")
}

package main

import (
	"bytes"
	"encoding/json"
	"fmt"
	"io"
	"reflect"
	"strings"

	redact "github.com/cockroachdb/redact"
	"github.com/cockroachdb/redact/internal/rfmt"
)

func init() {
	replayers["C06/after-classified"] = func(c *Ctx, raw json.RawMessage) string {
		var cs struct {
			C, H int
			Verb string
		}
		json.Unmarshal(raw, &cs)
		rfmt.VerifResetSafeTypes()
		dblSafeRegister()
		redact.RegisterSafeType(reflect.TypeOf(regIntT(0)))
		defer rfmt.VerifResetSafeTypes()
		return c06After(cs.C, cs.H, cs.Verb)
	}
	checks["C06"] = checkC06
	rules["C06"] = "every value of the universe and every scripted Format/SafeFormat body of <=3 ops (incl. re-entrant SafePrinter.Print/Printf, fmt.Fprintf on the state, nested scripted values, panics) under every wrapper word of length 1-3 over {Safe,Unsafe} x directives, with and without an error hook; envelope-coverage oracle + character comparison with fmt / with the unwrapped rendering; distinct = distinct outputs"
	replayers["C06/values"] = func(c *Ctx, raw json.RawMessage) string {
		var cs struct {
			D    Directive
			V, W int
		}
		json.Unmarshal(raw, &cs)
		u := universe()
		return c06Value(cs.D, &u[cs.V], cs.W, nil)
	}
	replayers["C06/values+hook"] = func(c *Ctx, raw json.RawMessage) string {
		redact.RegisterRedactErrorFn(c02Hook)
		defer redact.RegisterRedactErrorFn(nil)
		return replayers["C06/values"](c, raw)
	}
	replayers["C06/scripts"] = func(c *Ctx, raw json.RawMessage) string {
		var cs c06ScriptCase
		json.Unmarshal(raw, &cs)
		_, d := c06Script(cs, nil)
		return d
	}
}

// wrapper words: bit string, LSB = innermost; 0 = Safe, 1 = Unsafe
type wword struct {
	Name  string
	Apply func(x interface{}) interface{}
	Outer int // 0 Safe, 1 Unsafe
}

func wrapperWords(maxLen int) []wword {
	var r []wword
	for l := 1; l <= maxLen; l++ {
		for bits := 0; bits < 1<<l; bits++ {
			bits, l := bits, l
			var names []string
			for i := l - 1; i >= 0; i-- {
				if bits&(1<<i) != 0 {
					names = append(names, "Unsafe")
				} else {
					names = append(names, "Safe")
				}
			}
			r = append(r, wword{
				Name: strings.Join(names, "("),
				Apply: func(x interface{}) interface{} {
					for i := 0; i < l; i++ {
						if bits&(1<<i) != 0 {
							x = redact.Unsafe(x)
						} else {
							x = redact.Safe(x)
						}
					}
					return x
				},
				Outer: (bits >> (l - 1)) & 1,
			})
		}
	}
	return r
}

var c06Words = wrapperWords(3)

func allEnveloped(out []byte) bool {
	return WF(out) && len(bytes.ReplaceAll(EnvDel(out), []byte("\n"), nil)) == 0
}

func c06Value(d Directive, v *Val, wi int, seen func(string)) string {
	w := c06Words[wi]
	f, stars := d.Format()
	x := v.Mk(0)
	var out redact.RedactableString
	pvR, panR := recoverTo(func() { out = redact.Sprintf(f, append(append([]interface{}{}, stars...), w.Apply(x))...) })
	desc := fmt.Sprintf("Sprintf(%s, %s(%s)...)", d, w.Name, v.Name)
	if panR {
		// only a double panic may propagate, and then fmt propagates too
		_, panF := recoverTo(func() { fmt.Sprintf(f, append(append([]interface{}{}, stars...), x)...) })
		if !panF {
			return fmt.Sprintf("%s panics (%v) but fmt does not for the bare value", desc, pvR)
		}
		return ""
	}
	if seen != nil {
		seen(string(out))
	}
	o := []byte(out)
	if w.Outer == 1 {
		if !allEnveloped(o) {
			return fmt.Sprintf("%s = %q: under an outermost Unsafe everything must lie inside envelopes", desc, out)
		}
	} else if (!v.Own || v.WrapOnly) && !strings.Contains(v.Name, "panic") {
		if HasMarker(o) {
			return fmt.Sprintf("%s = %q: under an outermost Safe a value without own classification must not produce an envelope", desc, out)
		}
	}
	// characters are those fmt prints for x
	hookOn := rfmt.VerifHookInstalled()
	if (v.Fmt || (v.UnsafeFmt && w.Outer == 1)) && !(hookOn && w.Outer == 0) && d.Verb != 'w' && !d.zeroMeetsMinus() && !(v.PanicMid && (d.Wid != 0 || d.Prec != 0)) {
		var ref string
		if _, panF := recoverTo(func() { ref = fmt.Sprintf(f, append(append([]interface{}{}, stars...), x)...) }); !panF {
			got, want := Strip(o), Esc([]byte(ref))
			if !bytes.Equal(got, want) {
				return fmt.Sprintf("%s = %q: characters %q differ from what fmt prints for the bare value, %q", desc, out, got, want)
			}
		}
	}
	// redactables under a wrapper: flag-less %v/%s only
	if strings.HasPrefix(v.Name, "Redactable") && d.Flags == 0 && d.Wid == 0 && d.Prec == 0 && (d.Verb == 'v' || d.Verb == 's') {
		var raw []byte
		switch r := x.(type) {
		case redact.RedactableString:
			raw = []byte(r)
		case redact.RedactableBytes:
			raw = []byte(r)
		}
		if raw != nil {
			want := Strip(raw)
			if w.Outer == 1 {
				want = Esc(raw) // own markers escaped like plain data
			}
			got := Strip(o)
			if invalidTail(want) && bytes.Equal(got, append(append([]byte{}, want...), '?')) {
				got = want // the end-of-output guard after a truncated sequence (C10) is not a character of the operand
			}
			if !bytes.Equal(got, want) {
				return fmt.Sprintf("%s = %q: characters %q, want %q", desc, out, got, want)
			}
		}
	}
	return ""
}

// --- scripted active values ---------------------------------------------------

type c06ScriptCase struct {
	Body  []int `json:"body"`
	Route int   `json:"route"` // 0 SafeFormat, 1 Format (discovers the SafePrinter), 2 error rendered by hook
	W     int   `json:"wrapper_word"`
	Verb  int   `json:"verb"`
}

var c06BodyNames = []string{"SafeString(S)", "UnsafeString(U‹)", "SafeInt(7)", "Write(w)", "Fprintf(state,f%dg,5)", "Print(Safe(PS),pu)", "Printf(lit %s|%v,Safe(PS),pu)", "Print(nested SafeFormatter)", "panic(boom)", "Print(Unsafe(Safe(q)),RedactableString)", "SafeRune(,)", "SafeByte(;)", "SafeBytes(sb)", "SafeUint(8)", "SafeFloat(2.5)", "UnsafeRune(é)", "UnsafeByte(u)", "UnsafeBytes(ub)", "io.WriteString(ws)"}

func c06RunBody(p redact.SafePrinter, body []int) {
	for _, b := range body {
		switch b {
		case 0:
			p.SafeString("S")
		case 1:
			p.UnsafeString("U" + mStart)
		case 2:
			p.SafeInt(7)
		case 3:
			p.Write([]byte("w"))
		case 4:
			fmt.Fprintf(p, "f%dg", 5)
		case 5:
			p.Print(redact.Safe("PS"), "pu")
		case 6:
			p.Printf("lit %s|%v", redact.Safe("PS"), "pu")
		case 7:
			p.Print(scriptedFn(func(q redact.SafePrinter) { q.SafeString("N"); q.Print("nu", redact.Safe(1)) }))
		case 8:
			panic("boom")
		case 9:
			p.Print(redact.Unsafe(redact.Safe("q")), redact.RedactableString("r"+mStart+"x"+mEnd))
		case 10:
			p.SafeRune(',')
		case 11:
			p.SafeByte(';')
		case 12:
			p.SafeBytes([]byte("sb"))
		case 13:
			p.SafeUint(8)
		case 14:
			p.SafeFloat(2.5)
		case 15:
			p.UnsafeRune('é')
		case 16:
			p.UnsafeByte('u')
		case 17:
			p.UnsafeBytes([]byte("ub"))
		case 18:
			io.WriteString(p, "ws")
		}
	}
}

type c06SF struct{ body []int }

func (s c06SF) SafeFormat(p redact.SafePrinter, _ rune) { c06RunBody(p, s.body) }

type c06F struct{ body []int }

func (s c06F) Format(st fmt.State, _ rune) { c06RunBody(st.(redact.SafePrinter), s.body) }

type c06E struct{ body []int }

func (s *c06E) Error() string { return "c06E" }

func c06Hook(err error, p redact.SafePrinter, verb rune) {
	if e, ok := err.(*c06E); ok {
		c06RunBody(p, e.body)
		return
	}
	c02Hook(err, p, verb)
}

var c06Verbs = []string{"%v", "%s", "%+v", "%d", "%10v", "%x"}

func c06Script(cs c06ScriptCase, seen func(string)) (string, string) {
	var x interface{}
	switch cs.Route {
	case 0:
		x = c06SF{cs.Body}
	case 1:
		x = c06F{cs.Body}
	case 2:
		x = &c06E{cs.Body}
	}
	w := c06Words[cs.W]
	verb := c06Verbs[cs.Verb]
	var names []string
	for _, b := range cs.Body {
		names = append(names, c06BodyNames[b])
	}
	desc := fmt.Sprintf("Sprintf(%q, %s(%s with body %v))", verb, w.Name, []string{"SafeFormatter", "Formatter→SafePrinter", "error via hook"}[cs.Route], names)
	var out, bare redact.RedactableString
	if pv, pan := recoverTo(func() { out = redact.Sprintf(verb, w.Apply(x)) }); pan {
		return "panic", fmt.Sprintf("%s panics: %v", desc, pv)
	}
	if seen != nil {
		seen(string(out))
	}
	o := []byte(out)
	cl := "script"
	for _, b := range cs.Body {
		if b == 5 || b == 6 || b == 7 || b == 9 {
			cl = "D3-nested-printer-loses-override"
		}
	}
	if w.Outer == 1 {
		if !allEnveloped(o) {
			return cl, fmt.Sprintf("%s = %q: under an outermost Unsafe everything must lie inside envelopes", desc, out)
		}
	} else if cs.Route == 1 && !hasRedactableOp(cs.Body) {
		if HasMarker(o) {
			return cl, fmt.Sprintf("%s = %q: under an outermost Safe a formatter without own classification must not produce an envelope", desc, out)
		}
	}
	if cs.Route == 1 {
		// same characters as without the wrapper
		recoverTo(func() { bare = redact.Sprintf(verb, x) })
		if got, want := Strip(o), Strip([]byte(bare)); !bytes.Equal(got, want) {
			return cl, fmt.Sprintf("%s = %q: characters %q differ from the unwrapped rendering %q", desc, out, got, want)
		}
	}
	return "", ""
}

// --- after a classified element: an element that is safe for two reasons at once, or any other classified
// element, printed at depth > 0, and then an Unsafe(x) later in the same call and in the next call (the printer
// comes back from the pool): the override an element switched on must be switched off exactly once.

var c06Classified = []struct {
	Name string
	V    interface{}
}{
	{"SafeValue + registered", dblSafeT(7)},
	{"SafeValue + registered Stringer", dblSafeStrT{"d"}},
	{"SafeValue", safeT("p")},
	{"Safe(x)", redact.Safe("s")},
	{"Safe(SafeValue + registered)", redact.Safe(dblSafeT(1))},
	{"Unsafe(SafeValue + registered)", redact.Unsafe(dblSafeT(1))},
	{"SafeFormatter", safeFmtT{"k", "v"}},
	{"registered only", regIntT(3)},
	{"Safe(Unsafe-in-slice)", redact.Safe([]interface{}{redact.Unsafe("u")})},
}

var c06Holders = []struct {
	Name string
	Mk   func(x interface{}) interface{}
}{
	{"[]interface{}{x}", func(x interface{}) interface{} { return []interface{}{x} }},
	{"[]interface{}{x,x}", func(x interface{}) interface{} { return []interface{}{x, x} }},
	{"map value", func(x interface{}) interface{} { return map[string]interface{}{"k": x} }},
	{"exported field", func(x interface{}) interface{} { return fpEE{x, 1} }},
	{"unexported field", func(x interface{}) interface{} { return fpUU{x, 1} }},
	{"pointer to struct", func(x interface{}) interface{} { return &fpEE{x, x} }},
	{"top level", func(x interface{}) interface{} { return x }},
	{"typed slice", func(x interface{}) interface{} {
		if d, ok := x.(dblSafeT); ok {
			return []dblSafeT{d, d}
		}
		return [1]interface{}{x}
	}},
	{"map key", func(x interface{}) interface{} {
		if d, ok := x.(dblSafeT); ok {
			return map[dblSafeT]int{d: 1}
		}
		return map[string]interface{}{"z": x}
	}},
}

func c06After(ci, hi int, verb string) string {
	h := c06Holders[hi].Mk(c06Classified[ci].V)
	desc := fmt.Sprintf("%s in %s", c06Classified[ci].Name, c06Holders[hi].Name)
	var a, b, c2 redact.RedactableString
	if pv, pan := recoverTo(func() {
		a = redact.Sprintf(verb+" "+verb, h, redact.Unsafe("hunter2"))
		b = redact.Sprintf(verb, redact.Unsafe("hunter2"))
		c2 = redact.Sprintf("%v|%v", redact.Unsafe([]interface{}{h, "x"}), "tail")
	}); pan {
		return fmt.Sprintf("%s: panic %v", desc, pv)
	}
	own := redact.Sprintf(verb, h)
	if !strings.HasPrefix(string(a), string(own)+" ") || !allEnveloped([]byte(a)[len(own)+1:]) {
		return fmt.Sprintf("Sprintf(%q, %s, Unsafe(\"hunter2\")) = %q: the Unsafe operand after it must lie inside envelopes", verb+" "+verb, desc, a)
	}
	if !allEnveloped([]byte(b)) {
		return fmt.Sprintf("after printing %s, the next call Sprintf(%q, Unsafe(\"hunter2\")) = %q: must lie inside envelopes", desc, verb, b)
	}
	if i := strings.LastIndex(string(c2), "|"); i < 0 || !allEnveloped([]byte(c2)[:i]) || !allEnveloped([]byte(c2)[i+1:]) {
		return fmt.Sprintf("Sprintf(\"%%v|%%v\", Unsafe([]interface{}{%s, \"x\"}), \"tail\") = %q: both operands must lie inside envelopes", desc, c2)
	}
	return ""
}

func checkC06(c *Ctx) {
	npSection(c, "C06", 3)
	rfmt.VerifResetSafeTypes()
	dblSafeRegister()
	redact.RegisterSafeType(reflect.TypeOf(regIntT(0)))
	defer rfmt.VerifResetSafeTypes()
	c.Section("C06/after-classified", map[string]interface{}{"classified": len(c06Classified), "holders": len(c06Holders), "verbs": c06Verbs, "workers": 1}, 1, func(_ int, w *Worker) {
		// one worker: the "next call" part relies on the pool handing the same printer back
		for ci := range c06Classified {
			for hi := range c06Holders {
				for _, verb := range c06Verbs {
					w.Eval()
					if dt := c06After(ci, hi, verb); dt != "" {
						w.Fail("after-classified", map[string]interface{}{"C": ci, "H": hi, "Verb": verb}, dt)
					}
				}
			}
		}
		w.Seen(1)
		w.Seen(2)
	})
	u := universe()
	sp := midDirectives()
	nw := 6 // words of length <= 2
	if !c.Quick() {
		sp = quickDirectives()
		nw = len(c06Words)
	}
	valSec := func(name string, sp DirectiveSpace) {
		c.Section(name, map[string]interface{}{"directives": sp.Size(), "values": len(u), "wrapper_words": nw}, sp.Size(), func(i int, w *Worker) {
			d := sp.Get(i)
			for vi := range u {
				for wi := 0; wi < nw; wi++ {
					w.Eval()
					if dt := c06Value(d, &u[vi], wi, w.SeenS); dt != "" {
						w.Fail("value:"+u[vi].Name, map[string]interface{}{"D": d, "V": vi, "W": wi, "value": u[vi].Name, "wrapper": c06Words[wi].Name}, dt)
					}
				}
			}
			if i%211 == 0 {
				v := u[(i/3)%len(u)]
				f, stars := d.Format()
				recoverTo(func() {
					w.Sample(map[string]interface{}{"directive": d.String(), "value": v.Name, "Unsafe(x)": q(string(redact.Sprintf(f, append(stars, redact.Unsafe(v.Mk(0)))...)))})
				})
			}
		})
	}
	valSec("C06/values", sp)
	redact.RegisterRedactErrorFn(c02Hook)
	valSec("C06/values+hook", midDirectives())
	redact.RegisterRedactErrorFn(nil)
	// scripts
	maxBody := 2
	if !c.Quick() {
		maxBody = 3
	}
	be := NewStrEnum(make([]string, len(c06BodyNames)), maxBody)
	redact.RegisterRedactErrorFn(c06Hook)
	c.Section("C06/scripts", map[string]interface{}{"body_ops": c06BodyNames, "max_body": maxBody, "routes": "SafeFormat, Format discovering the SafePrinter, error rendered by the hook", "wrapper_words": len(c06Words), "verbs": c06Verbs}, be.Total, func(i int, w *Worker) {
		body := be.Tokens(i)
		for route := 0; route <= 2; route++ {
			for wi := range c06Words {
				for vi := range c06Verbs {
					cs := c06ScriptCase{Body: body, Route: route, W: wi, Verb: vi}
					w.Eval()
					if cl, d := c06Script(cs, w.SeenS); d != "" {
						w.Fail(cl, cs, d)
					}
				}
			}
		}
	})
	redact.RegisterRedactErrorFn(nil)
	c.Assume("Safe() clause applied to values without own classification and without panicking methods (a panic payload is unsafe by C11); redactables under wrappers: character clause for flag-less %v/%s only (C08)")
}

// hasRedactableOp: the body prints a RedactableString, which keeps its own envelopes under Safe().
func hasRedactableOp(body []int) bool {
	for _, b := range body {
		if b == 9 {
			return true
		}
	}
	return false
}

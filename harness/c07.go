package main

import (
	"bytes"
	"encoding/json"
	"fmt"
	"strings"

	redact "github.com/cockroachdb/redact"
)

var alphaC07 = []string{"a", mStart, mEnd, mCross, "\n", "\xe2", "\x80", "\xb9", "\ufffd", "é", "\U0001F600", "\xba", "\u2038", "\u203b"}
var alphaWFtok = []string{"a", mCross, "\n", "?", mStart, mEnd, "\ufffd", "é"}

func init() {
	checks["C07"] = checkC07
	rules["C07"] = "every string of <=n tokens over {a,‹,›,×,LF,E2,80,B9,...}; every 3-byte window in 3 contexts and all pairs of mask look-alikes of the markers; all well-formed ones additionally against a scanner-based model of Redact/StripMarkers; all ordered pairs of short well-formed valid-UTF-8 redactables for the concatenation laws; distinct = distinct Redact outputs"
	replayers["C07/arbitrary"] = func(c *Ctx, raw json.RawMessage) string {
		var cs struct {
			S []byte `json:"s"`
		}
		json.Unmarshal(raw, &cs)
		cl, d := c07Eval(cs.S)
		_ = cl
		return d
	}
	replayers["C07/pairs"] = func(c *Ctx, raw json.RawMessage) string {
		var cs struct{ U, V []byte }
		json.Unmarshal(raw, &cs)
		return c07Pair(cs.U, cs.V)
	}
}

// c07Eval returns (class, detail); class "" means pass.
func c07Eval(s []byte, rets ...*retained) (string, string) {
	var ret *retained
	if len(rets) > 0 {
		ret = rets[0]
	}
	rs := redact.RedactableString(s)
	rb := redact.RedactableBytes(append([]byte(nil), s...))
	st := rs.StripMarkers()
	stb := rb.StripMarkers()
	if !bytes.Equal([]byte(rb), s) {
		return "mutates-input", fmt.Sprintf("RedactableBytes.StripMarkers modified its receiver %q", s)
	}
	if st != string(stb) {
		return "variants-disagree", fmt.Sprintf("StripMarkers string %q vs bytes %q on %q", st, stb, s)
	}
	ret.keep(stb, fmt.Sprintf("RedactableBytes(%q).StripMarkers()", s))
	rd := rs.Redact()
	rdb := rb.Redact()
	ret.keep(rdb, fmt.Sprintf("RedactableBytes(%q).Redact()", s))
	if d := ret.check(); d != "" {
		return "result-aliasing", d
	}
	if !bytes.Equal([]byte(rb), s) {
		return "mutates-input", fmt.Sprintf("RedactableBytes.Redact modified its receiver %q", s)
	}
	if string(rd) != string(rdb) {
		return "variants-disagree", fmt.Sprintf("Redact string %q vs bytes %q on %q", rd, rdb, s)
	}
	if string(rs.ToBytes()) != string(s) || string(rb.ToString()) != string(s) || string(rs.ToBytes().ToString()) != string(s) {
		return "conversion", fmt.Sprintf("ToBytes/ToString do not round-trip %q", s)
	}
	if len(s) > 0 {
		// a string handed out must never change: not when the byte slice it was converted from is written to
		// afterwards, and a byte slice handed out must be the caller's to write to
		in := append([]byte(nil), s...)
		str := redact.RedactableBytes(in).ToString()
		keep := clone(string(str))
		for i := range in {
			in[i] = 'Z'
		}
		if string(str) != keep {
			return "conversion-aliases-input", fmt.Sprintf("RedactableBytes(%q).ToString() changed to %q when the byte slice was written to afterwards", s, str)
		}
		src := redact.RedactableString(append([]byte(nil), s...))
		tb := src.ToBytes()
		tb[0] ^= 0xff
		if string(src) != string(s) {
			return "conversion-aliases-input", fmt.Sprintf("writing to RedactableString(%q).ToBytes() changed the string to %q", s, src)
		}
	}
	if rd2 := rd.Redact(); rd2 != rd {
		return "redact-not-idempotent", fmt.Sprintf("Redact(%q) = %q, again = %q", s, rd, rd2)
	}
	// exactness of stripping: delete the delimiters left to right; repeat only if the
	// deletion itself brought the bytes of another marker together (ill-formed UTF-8)
	one := Strip(s)
	want := one
	for HasMarker(want) {
		want = Strip(want)
	}
	if st != string(want) {
		if st == string(one) {
			// delimiters deleted exactly once, yet a marker remains: its bytes were not contiguous in the input
			return "K1-strip-reassembles-split-marker", fmt.Sprintf("StripMarkers(%q) = %q contains a marker", s, st)
		}
		return "strip-model", fmt.Sprintf("StripMarkers(%q) = %q, deleting the delimiters gives %q", s, st, want)
	}
	if HasMarker([]byte(st)) {
		return "strip-leaves-marker", fmt.Sprintf("StripMarkers(%q) = %q contains a marker", s, st)
	}
	if redact.RedactableString(st).StripMarkers() != st {
		return "strip-not-idempotent", fmt.Sprintf("StripMarkers not idempotent on %q", s)
	}
	if WF(s) {
		if want := RedactModel(s); string(rd) != string(want) {
			return "redact-model", fmt.Sprintf("Redact(%q) = %q, model %q", s, rd, want)
		}
		if !WF([]byte(rd)) {
			return "redact-illformed", fmt.Sprintf("Redact(%q) = %q not well-formed", s, rd)
		}
		if CountEnvelopes([]byte(rd)) != CountEnvelopes(s) {
			return "redact-envelope-count", fmt.Sprintf("Redact(%q) = %q changes the number of envelopes", s, rd)
		}
		if !bytes.Equal(EnvDel([]byte(rd)), EnvDel(s)) {
			return "redact-safe-text", fmt.Sprintf("Redact(%q) = %q changes the safe text", s, rd)
		}
		if c := EnvOnly([]byte(rd)); !bytes.Equal(bytes.ReplaceAll(c, []byte(mCross), nil), nil) {
			return "redact-leaves-content", fmt.Sprintf("Redact(%q) = %q leaves envelope content", s, rd)
		}
	}
	return "", ""
}

func c07Pair(u, v []byte) string {
	uv := append(append([]byte(nil), u...), v...)
	R := func(x []byte) string { return string(redact.RedactableString(x).Redact()) }
	S := func(x []byte) string { return redact.RedactableString(x).StripMarkers() }
	if R(uv) != R(u)+R(v) {
		return fmt.Sprintf("Redact(%q+%q) = %q but parts give %q", u, v, R(uv), R(u)+R(v))
	}
	if S(uv) != S(u)+S(v) {
		return fmt.Sprintf("StripMarkers(%q+%q) = %q but parts give %q", u, v, S(uv), S(u)+S(v))
	}
	if string(redact.RedactableBytes(uv).Redact()) != R(uv) {
		return fmt.Sprintf("bytes/string Redact disagree on %q", uv)
	}
	return ""
}

func checkC07(c *Ctx) {
	n, nwf, npair := 5, 7, 3
	if !c.Quick() {
		n, nwf, npair = 7, 9, 4
	}
	en := NewStrEnum(alphaC07, n)
	c.Section("C07/arbitrary", map[string]interface{}{"alphabet": alphaC07, "max_tokens": n}, en.Total, func(i int, w *Worker) {
		s := en.Get(i, nil)
		w.Eval()
		if cl, d := c07Eval(s, w.Retained()); cl != "" {
			w.Fail(cl, map[string]interface{}{"s": s, "quoted": q(string(s))}, d)
		}
		if WF(s) {
			w.Count("well_formed_inputs", 1)
		}
		w.SeenS(string(redact.RedactableString(s).Redact()))
		if i%50021 == 7 {
			w.Sample(map[string]interface{}{"s": q(string(s)), "Redact": q(string(redact.RedactableString(s).Redact())), "Strip": q(redact.RedactableString(s).StripMarkers())})
		}
	})
	// well-formed redactables by grammar, longer
	ew := NewStrEnum(alphaWFtok, nwf)
	c.Section("C07/wellformed", map[string]interface{}{"alphabet": alphaWFtok, "max_tokens": nwf, "filter": "well-formed by the independent scanner"}, ew.Total, func(i int, w *Worker) {
		s := ew.Get(i, nil)
		if !WF(s) {
			return
		}
		w.Eval()
		if cl, d := c07Eval(s, w.Retained()); cl != "" {
			w.Fail(cl, map[string]interface{}{"s": s, "quoted": q(string(s))}, d)
		}
		w.SeenS(string(redact.RedactableString(s).Redact()))
	})
	replayers["C07/wellformed"] = replayers["C07/arbitrary"]
	// pairs
	ep := NewStrEnum(alphaWFtok, npair)
	var wf [][]byte
	for i := 0; i < ep.Total; i++ {
		s := ep.Get(i, nil)
		if WF(s) {
			wf = append(wf, append([]byte(nil), s...))
		}
	}
	c.Section("C07/pairs", map[string]interface{}{"alphabet": alphaWFtok, "max_tokens_each": npair, "well_formed_strings": len(wf)}, len(wf), func(i int, w *Worker) {
		for _, v := range wf {
			w.Eval()
			if d := c07Pair(wf[i], v); d != "" {
				w.Fail("concat-law", map[string]interface{}{"U": wf[i], "V": v}, d)
			}
		}
		w.SeenB(wf[i])
	})
	// systematic family: markers nested inside the bytes of split markers, to depth 6 (each removal re-assembles the next)
	depthMax := 6
	nN := 0
	for d := 0; d <= depthMax; d++ {
		nN += ipow(4, d+1)
	}
	c.Section("C07/nested-splits", map[string]interface{}{"max_nesting_depth": depthMax, "per_level": "marker kind x split position"}, nN, func(i int, w *Worker) {
		// decode i into (depth, choices)
		d, r := 0, i
		for r >= ipow(4, d+1) {
			r -= ipow(4, d+1)
			d++
		}
		cur := []byte{}
		for lvl := 0; lvl <= d; lvl++ {
			ch := r % 4
			r /= 4
			m := []byte(mStart)
			if ch&1 == 1 {
				m = []byte(mEnd)
			}
			if lvl == 0 {
				cur = append([]byte{}, m...)
				continue
			}
			cut := 1 + (ch >> 1) // split after the first or after the second byte
			nx := append(append(append([]byte{}, m[:cut]...), cur...), m[cut:]...)
			cur = nx
		}
		for _, x := range [][]byte{cur, append(append([]byte("a"), cur...), 'b')} {
			w.Eval()
			if cl, dt := c07Eval(x, w.Retained()); cl != "" {
				w.Fail(cl, map[string]interface{}{"s": x, "quoted": q(string(x))}, dt)
			}
		}
		w.SeenB(cur)
	})
	replayers["C07/nested-splits"] = replayers["C07/arbitrary"]
	// every 3-byte window b0 b1 b2 in three contexts (alone, inside an envelope, between two envelopes): a scanner
	// that recognises markers by anything weaker than byte equality (masks, first/last byte, rune decoding of
	// ill-formed input) takes some non-marker window for a marker. quick: b0 over the bytes sharing a nibble
	// with the markers' lead byte; thorough: all 2^24 windows.
	var leads []int
	for b := 0; b < 256; b++ {
		if !c.Quick() || b&0x0f == 0x02 || b&0xf0 == 0xe0 {
			leads = append(leads, b)
		}
	}
	winCtx := [][2]string{{"", ""}, {"k" + mStart + "x", "y" + mEnd + "t"}, {mStart + "x" + mEnd, mStart + "y" + mEnd}}
	c.Section("C07/byte-windows", map[string]interface{}{"first_bytes": len(leads), "second_third_bytes": 65536, "contexts": []string{"alone", "inside an envelope", "between two envelopes"}}, len(leads)*256, func(i int, w *Worker) {
		b0, b1 := byte(leads[i/256]), byte(i%256)
		buf := make([]byte, 0, 32)
		for b2 := 0; b2 < 256; b2++ {
			for _, cx := range winCtx {
				buf = append(append(append(buf[:0], cx[0]...), b0, b1, byte(b2)), cx[1]...)
				w.Eval()
				if cl, d := c07Eval(buf, w.Retained()); cl != "" {
					w.Fail(cl, map[string]interface{}{"s": append([]byte(nil), buf...), "quoted": q(string(buf))}, d)
				}
			}
		}
		w.SeenB([]byte{b0, b1})
	})
	replayers["C07/byte-windows"] = replayers["C07/arbitrary"]
	// systematic size family: n envelopes for every n in 0..130 (batching, fixed-size tables, counters), in a few
	// arrangements, and n bytes of content in one envelope
	units := []string{mStart + "x" + mEnd, mStart + mEnd, "a" + mStart + "x\ny" + mEnd, mStart + "x" + mEnd + "\n", mRed + " "}
	c.Section("C07/counts", map[string]interface{}{"envelopes": "every n in 0..130", "arrangements": len(units), "content_lengths": "every n in 0..130"}, 131*(len(units)+1), func(i int, w *Worker) {
		n, k := i%131, i/131
		var x []byte
		if k < len(units) {
			x = []byte("p" + strings.Repeat(units[k], n) + "s")
		} else {
			x = []byte(mStart + strings.Repeat("c", n) + mEnd + strings.Repeat("t", n))
		}
		w.Eval()
		if cl, d := c07Eval(x, w.Retained()); cl != "" {
			w.Fail(cl, map[string]interface{}{"s": x, "quoted": q(string(x))}, d)
		}
		w.Seen(uint64(i))
	})
	replayers["C07/counts"] = replayers["C07/arbitrary"]
	// envelope content of n runes, n around every power of two and every power of ten up to 2^17 (a repetition bound,
	// a fixed scratch size or a counter width in the envelope scanner cuts at such a length), in one-, two- and
	// three-byte runes, alone and followed by a second envelope
	var clens []int
	for _, c0 := range []int{255, 256, 512, 1000, 1024, 2048, 4096, 8192, 10000, 16384, 32768, 65536, 100000, 131072} {
		if c.Quick() && c0 > 70000 {
			continue
		}
		for dl := -2; dl <= 2; dl++ {
			clens = append(clens, c0+dl)
		}
	}
	cunits := []string{"c", "\u00e9", "\u2038", "x\n"}
	c.Section("C07/content-lengths", map[string]interface{}{"content_runes": clens, "units": cunits, "shapes": []string{"one envelope", "two envelopes", "an envelope after n runes of safe text"}}, len(clens)*len(cunits), func(i int, w *Worker) {
		n, u := clens[i/len(cunits)], cunits[i%len(cunits)]
		body := strings.Repeat(u, n)
		for _, x := range []string{"p" + mStart + body + mEnd + "s", mStart + body + mEnd + "m" + mStart + body[:len(u)*3] + mEnd, body + mStart + "x" + mEnd} {
			w.Eval()
			if cl, d := c07Eval([]byte(x), w.Retained()); cl != "" {
				if len(d) > 600 {
					d = d[:300] + " … " + d[len(d)-300:]
				}
				w.Fail(cl, map[string]interface{}{"unit": u, "n": n, "s": []byte(x)}, fmt.Sprintf("%d repetitions of %q: %s", n, u, d))
			}
		}
		w.Seen(uint64(i))
	})
	replayers["C07/content-lengths"] = replayers["C07/arbitrary"]
	// long inputs: one envelope (and, separately, one split-marker pattern) swept across every power-of-two boundary
	// from 2^10 to 2^17 (chunked or windowed processing of large inputs cuts somewhere)
	bounds := []int{1 << 10, 1 << 12, 1 << 13, 1 << 14, 1 << 15, 1 << 16, 1 << 17}
	if c.Quick() {
		bounds = []int{1 << 12, 1 << 14, 1 << 15, 1 << 16}
	}
	pats := []string{mStart + "hunter2" + mEnd, mStart + mEnd, mRed, "\n" + mStart + "x\n" + mEnd}
	const span = 14
	c.Section("C07/boundaries", map[string]interface{}{"boundaries": bounds, "patterns": len(pats), "offsets": "boundary-12 .. boundary+1", "fillers": "plain text; text that is itself full of envelopes"}, len(bounds)*span*len(pats), func(i int, w *Worker) {
		b, off, pat := bounds[i/(span*len(pats))], i/len(pats)%span, pats[i%len(pats)]
		pos := b - 12 + off
		for fill := 0; fill < 2; fill++ {
			var x []byte
			if fill == 0 {
				x = append(append(bytes.Repeat([]byte("a"), pos), pat...), bytes.Repeat([]byte("t"), 40)...)
			} else {
				unit := []byte(mStart + "u" + mEnd + "ab")
				x = bytes.Repeat(unit, pos/len(unit))
				x = append(x, bytes.Repeat([]byte("c"), pos-len(x))...)
				x = append(append(x, pat...), bytes.Repeat(unit, 8)...)
			}
			w.Eval()
			if cl, d := c07Eval(x, w.Retained()); cl != "" {
				if len(d) > 600 {
					d = d[:300] + " … " + d[len(d)-300:]
				}
				w.Fail(cl, map[string]interface{}{"s": x, "boundary": b, "offset": pos}, fmt.Sprintf("pattern %q at offset %d (boundary %d) of a %d-byte input: %s", pat, pos, b, len(x), d))
			}
		}
		w.Seen(uint64(i))
	})
	replayers["C07/boundaries"] = replayers["C07/arbitrary"]
	// two windows from the marker look-alikes under bit masks (lead byte equal in the low nibble, continuation
	// bytes equal in the low six bits), with text around them: a fake start is only visible with a (fake) end
	var alias [][]byte
	for b0 := 0x02; b0 < 256; b0 += 16 {
		for b1 := 0; b1 < 256; b1 += 64 {
			for _, lo := range []int{0x39, 0x3a} {
				for b2 := lo; b2 < 256; b2 += 64 {
					alias = append(alias, []byte{byte(b0), byte(b1), byte(b2)})
				}
			}
		}
	}
	c.Section("C07/alias-pairs", map[string]interface{}{"windows": len(alias), "shape": "k W1 m W2 t"}, len(alias), func(i int, w *Worker) {
		for _, w2 := range alias {
			x := append(append(append(append([]byte("k"), alias[i]...), 'm'), w2...), 't')
			w.Eval()
			if cl, d := c07Eval(x, w.Retained()); cl != "" {
				w.Fail(cl, map[string]interface{}{"s": x, "quoted": q(string(x))}, d)
			}
		}
		w.SeenB(alias[i])
	})
	replayers["C07/alias-pairs"] = replayers["C07/arbitrary"]
	// the marker accessors hand out byte slices: writing into one must not change what Redact/StripMarkers do
	c.Section("C07/accessor-isolation", map[string]interface{}{"accessors": "StartMarker, EndMarker, RedactedMarker", "after_scribbling": "all strings of <=4 tokens re-checked"}, 1, func(_ int, w *Worker) {
		acc := []struct {
			name string
			f    func() []byte
			want string
		}{{"StartMarker", redact.StartMarker, mStart}, {"EndMarker", redact.EndMarker, mEnd}, {"RedactedMarker", redact.RedactedMarker, mRed}}
		small := NewStrEnum(alphaC07, 3)
		for _, a := range acc {
			got := a.f()
			if string(got) != a.want {
				w.Fail("accessor", map[string]string{"accessor": a.name}, fmt.Sprintf("%s() = %q, want %q", a.name, got, a.want))
				continue
			}
			saved := append([]byte(nil), got...)
			for i := range got {
				got[i] = '*' // a caller is free to reuse the slice it was given
			}
			for i := 0; i < small.Total; i++ {
				x := small.Get(i, nil)
				w.Eval()
				if cl, d := c07Eval(x); cl != "" {
					w.Fail("accessor-isolation", map[string]interface{}{"s": x, "accessor": a.name}, fmt.Sprintf("after writing into the slice returned by %s(): %s", a.name, d))
					break
				}
			}
			if again := a.f(); string(again) != a.want {
				w.Fail("accessor-isolation", map[string]string{"accessor": a.name}, fmt.Sprintf("after writing into the slice returned by %s(), %s() = %q", a.name, a.name, again))
			}
			copy(got, saved) // restore in case the slice is shared (keeps later sections meaningful)
			w.SeenS(a.name)
		}
		w.SeenS("done")
	})
	// outputs produced by the library itself (as the other properties produce them)
	u := universe()
	sp := quickDirectives()
	if c.Quick() {
		sp = midDirectives()
	}
	c.Section("C07/library-outputs", map[string]interface{}{"directives": sp.Size(), "values": len(u), "instantiations": 2}, sp.Size(), func(i int, w *Worker) {
		d := sp.Get(i)
		f, stars := d.Format()
		for vi := range u {
			for v := 0; v < 2; v++ {
				var out redact.RedactableString
				if _, pan := recoverTo(func() { out = redact.Sprintf(f, append(append([]interface{}{}, stars...), u[vi].Mk(v))...) }); pan {
					continue
				}
				w.Eval()
				if cl, dt := c07Eval([]byte(out)); cl != "" {
					w.Fail(cl, map[string]interface{}{"s": []byte(out), "quoted": q(string(out))}, dt)
				}
				w.SeenS(string(out))
			}
		}
	})
	replayers["C07/library-outputs"] = replayers["C07/arbitrary"]
	c.Assume("Redact/StripMarkers distinguish only the two markers, the cross, LF, other bytes and partial-marker bytes; every one of those classes is a token")
}

package main

import (
	"bytes"
	"encoding/json"
	"fmt"
	"reflect"
	"strings"

	redact "github.com/cockroachdb/redact"
)

func init() {
	replayers["C08/sinks"] = func(c *Ctx, raw json.RawMessage) string {
		var cs struct {
			R                []byte
			Bytes            bool
			Impl, Pre, Shape int
		}
		json.Unmarshal(raw, &cs)
		redact.RegisterRedactErrorFn(scriptedHook)
		defer redact.RegisterRedactErrorFn(nil)
		return c08Sink(redact.RedactableString(cs.R), cs.Bytes, cs.Impl, cs.Pre, cs.Shape)
	}
	replayers["C08/held-operand"] = func(c *Ctx, raw json.RawMessage) string {
		var cs struct {
			R      []byte
			Bytes  bool
			C1, C2 int
		}
		json.Unmarshal(raw, &cs)
		return c08Held(redact.RedactableString(cs.R), cs.Bytes, cs.C1, cs.C2)
	}
	checks["C08"] = checkC08
	rules["C08"] = "every redactable obtained from the library by <=2 rounds of printing/joining x every directive (minus %T,%p) at top level (identity) and inside 14 holder shapes (homomorphism against a marker-free placeholder), as string and as bytes; Sprint(Sprint(a))==Sprint(a) over the universe; Join/JoinTo/Sprintf concatenation laws over all lists of <=3; distinct = distinct outputs"
	replayers["C08/identity"] = func(c *Ctx, raw json.RawMessage) string {
		var cs struct {
			D       Directive
			R, H, B int
		}
		json.Unmarshal(raw, &cs)
		return c08Holder(cs.D, c08Seeds()[cs.R], cs.H, cs.B == 1, nil)
	}
	replayers["C08/reprint"] = func(c *Ctx, raw json.RawMessage) string {
		var cs struct{ Vs []int }
		json.Unmarshal(raw, &cs)
		return c08Reprint(cs.Vs, nil)
	}
	replayers["C08/concat"] = func(c *Ctx, raw json.RawMessage) string {
		var cs struct {
			Rs []int
			D  int
		}
		json.Unmarshal(raw, &cs)
		return c08Concat(cs.Rs, cs.D, nil)
	}
}

var c08SeedCache []redact.RedactableString

func c08Seeds() []redact.RedactableString {
	if c08SeedCache != nil {
		return c08SeedCache
	}
	r2 := redact.Sprint("u" + mStart + "x" + mEnd + "\ny")
	r3 := redact.Sprintf("%d|%s", 1, redact.Safe("s"))
	r4 := redact.EscapeBytes([]byte("e\n\ne")).ToString()
	r5 := redact.Sprint("\n")
	r6 := redact.Join(", ", []redact.RedactableString{r2, r3})
	r7 := redact.Sprint(r2, r3, 7)
	r8 := redact.Sprintf("%s<%v>%5d", r6, "z", 3)
	var b redact.StringBuilder
	b.SafeString("sb:")
	b.UnsafeString("q\n")
	b.Print(r7)
	r9 := b.RedactableString()
	r10 := redact.Sprint(redact.Safe("?"+mStart), "x\xe2")
	// marker-free redactables that BEGIN with the continuation bytes of a marker (harmless alone; next to text that
	// ends in the marker's first byte(s) the two must still not be read together)
	r11 := redact.Sprint(redact.Safe("\x80\xb9tail"))
	r12 := redact.Sprint(redact.Safe("\xb9t"), "\x80\xba")
	r13 := redact.Sprintf("\x80\xba%d", 4)
	c08SeedCache = []redact.RedactableString{"", "plain safe", r2, r3, r4, r5, r6, r7, r8, r9, r10, redact.RedactableString(mRed), redact.RedactableString(mStart + mEnd), r11, r12, r13}
	return c08SeedCache
}

const c08Placeholder = "PLACEHOLDER"

type c08HolderT struct {
	Name string
	Mk   func(r interface{}) interface{} // r is a RedactableString or RedactableBytes
}

type holdS struct {
	R interface{}
	r interface{}
}
type holdStr struct {
	R redact.RedactableString
	r redact.RedactableString
}
type holdBytes struct {
	R redact.RedactableBytes
	r redact.RedactableBytes
}

var c08Holders = []c08HolderT{
	{"top level", func(r interface{}) interface{} { return r }},
	{"reflect.Value", func(r interface{}) interface{} { return reflect.ValueOf(r) }},
	{"[]interface{}", func(r interface{}) interface{} { return []interface{}{r, 1} }},
	{"typed slice", func(r interface{}) interface{} {
		if s, ok := r.(redact.RedactableString); ok {
			return []redact.RedactableString{s, s}
		}
		return []redact.RedactableBytes{r.(redact.RedactableBytes)}
	}},
	{"array", func(r interface{}) interface{} {
		if s, ok := r.(redact.RedactableString); ok {
			return [1]redact.RedactableString{s}
		}
		return [1]redact.RedactableBytes{r.(redact.RedactableBytes)}
	}},
	{"map value", func(r interface{}) interface{} { return map[string]interface{}{"k": r} }},
	{"map key", func(r interface{}) interface{} {
		if s, ok := r.(redact.RedactableString); ok {
			return map[redact.RedactableString]int{s: 1}
		}
		return map[int]redact.RedactableBytes{1: r.(redact.RedactableBytes)}
	}},
	{"struct iface fields (exported+unexported)", func(r interface{}) interface{} { return holdS{r, r} }},
	{"struct typed fields (exported+unexported)", func(r interface{}) interface{} {
		if s, ok := r.(redact.RedactableString); ok {
			return holdStr{s, s}
		}
		return holdBytes{r.(redact.RedactableBytes), r.(redact.RedactableBytes)}
	}},
	{"pointer to struct", func(r interface{}) interface{} { return &holdS{r, nil} }},
	{"pointer to slice", func(r interface{}) interface{} {
		if s, ok := r.(redact.RedactableString); ok {
			return &[]redact.RedactableString{s}
		}
		b := r.(redact.RedactableBytes)
		return &b
	}},
	{"reflect.Value of unexported field", func(r interface{}) interface{} {
		if s, ok := r.(redact.RedactableString); ok {
			return reflect.ValueOf(holdStr{s, s}).Field(1)
		}
		return reflect.ValueOf(holdBytes{nil, r.(redact.RedactableBytes)}).Field(1)
	}},
	{"reflect.Value of slice", func(r interface{}) interface{} { return reflect.ValueOf([]interface{}{r}) }},
	{"nested [][]", func(r interface{}) interface{} { return [][]interface{}{{r}, {2, r}} }},
	// holders under a Safe override: a redactable keeps its own envelopes there
	{"Safe([]interface{}{r,1})", func(r interface{}) interface{} { return redact.Safe([]interface{}{r, 1}) }},
	{"Safe(struct)", func(r interface{}) interface{} { return redact.Safe(holdS{r, r}) }},
	{"SafeValue struct", func(r interface{}) interface{} { return holdSafe{r, 7} }},
	{"[]SafeValue struct", func(r interface{}) interface{} { return []holdSafe{{r, 1}, {r, 2}} }},
	{"SafeFormatter printing r under Safe()", func(r interface{}) interface{} {
		return redact.Safe(scriptedFn(func(p redact.SafePrinter) { p.SafeString("pre:"); p.Print(r); p.Printf("|%v|", r) }))
	}},
	{"SafeFormatter printing r", func(r interface{}) interface{} {
		return scriptedFn(func(p redact.SafePrinter) { p.UnsafeString("u"); p.Print(r); p.Printf("|%s|", r) })
	}},
}

type holdSafe struct {
	R interface{}
	N int
}

func (holdSafe) SafeValue() {}

func c08Holder(d Directive, r redact.RedactableString, hi int, asBytes bool, seen func(string)) string {
	if d.Verb == 'T' || d.Verb == 'p' {
		return ""
	}
	f, stars := d.Format()
	h := c08Holders[hi]
	var val, ph interface{} = r, redact.RedactableString(c08Placeholder)
	if asBytes {
		val, ph = redact.RedactableBytes(r), redact.RedactableBytes(c08Placeholder)
	}
	var got, ref redact.RedactableString
	if pv, pan := recoverTo(func() {
		got = redact.Sprintf(f, append(append([]interface{}{}, stars...), h.Mk(val))...)
		ref = redact.Sprintf(f, append(append([]interface{}{}, stars...), h.Mk(ph))...)
	}); pan {
		return fmt.Sprintf("Sprintf(%s, %s[%q]) panics: %v", d, h.Name, r, pv)
	}
	if seen != nil {
		seen(string(got))
	}
	if hi == 0 {
		if got != r {
			return fmt.Sprintf("Sprintf(%s, %q) = %q: re-printing a redactable must reproduce it unchanged (bytes=%v)", d, r, got, asBytes)
		}
		return ""
	}
	if h.Name == "pointer to struct" || h.Name == "pointer to slice" {
		if d.Verb != 'v' && d.Verb != 's' || !strings.Contains(string(ref), c08Placeholder) {
			return "" // pointers print as addresses under these verbs
		}
	}
	want := strings.ReplaceAll(string(ref), c08Placeholder, string(r))
	if !strings.Contains(string(ref), c08Placeholder) && strings.HasPrefix(h.Name, "SafeFormatter printing") {
		return "" // a function value under a verb that does not dispatch (%w): nothing is printed through the printer
	}
	if !strings.Contains(string(ref), c08Placeholder) {
		return fmt.Sprintf("Sprintf(%s, %s[placeholder]) = %q does not reproduce the placeholder redactable", d, h.Name, ref)
	}
	if string(got) != want {
		return fmt.Sprintf("Sprintf(%s, %s[%q]) = %q, want %q (the redactable copied unchanged into the same surroundings; bytes=%v)", d, h.Name, r, got, want, asBytes)
	}
	return ""
}

func c08Reprint(vs []int, seen func(string)) string {
	u := universe()
	var args []interface{}
	for _, i := range vs {
		args = append(args, u[i].Mk(0))
	}
	var s1 redact.RedactableString
	if _, pan := recoverTo(func() { s1 = redact.Sprint(args...) }); pan {
		return ""
	}
	if seen != nil {
		seen(string(s1))
	}
	cur := s1
	for round := 1; round <= 3; round++ {
		next := redact.Sprint(cur)
		if next != s1 {
			return fmt.Sprintf("Sprint(%s) = %q; re-printed %d time(s) it becomes %q", descArgs(args), s1, round, next)
		}
		if nb := redact.Sprintf("%v", cur.ToBytes()); nb != s1 {
			return fmt.Sprintf("Sprint(%s) = %q; re-printed as bytes it becomes %q", descArgs(args), s1, nb)
		}
		cur = next
	}
	// distribution over concatenation with a literal
	if got := redact.Sprintf("[%s|%v]", s1, s1); string(got) != "["+string(s1)+"|"+string(s1)+"]" {
		return fmt.Sprintf("Sprintf(\"[%%s|%%v]\", r, r) with r=%q gives %q", s1, got)
	}
	return ""
}

func c08Concat(rs []int, di int, seen func(string)) string {
	seeds := c08Seeds()
	var lst []redact.RedactableString
	var parts []string
	for _, i := range rs {
		lst = append(lst, seeds[i])
		parts = append(parts, string(seeds[i]))
	}
	dl := joinDelims[di]
	want := strings.Join(parts, string(dl))
	got := redact.Join(dl, lst)
	if seen != nil {
		seen(string(got))
	}
	if string(got) != want {
		return fmt.Sprintf("Join(%q, %q) = %q, want plain concatenation %q", dl, lst, got, want)
	}
	var b redact.StringBuilder
	redact.JoinTo(&b, dl, lst)
	if string(b.RedactableString()) != want {
		return fmt.Sprintf("JoinTo(StringBuilder, %q, %q) = %q, want %q", dl, lst, b.RedactableString(), want)
	}
	if got := redact.Sprintfn(func(p redact.SafePrinter) { redact.JoinTo(p, dl, lst) }); string(got) != want {
		return fmt.Sprintf("JoinTo(printer, %q, %q) = %q, want %q", dl, lst, got, want)
	}
	// Sprintf with literals is plain concatenation too
	if len(lst) == 2 {
		if got := redact.Sprintf("a%sb%vc", lst[0], lst[1].ToBytes()); string(got) != "a"+parts[0]+"b"+parts[1]+"c" {
			return fmt.Sprintf("Sprintf(\"a%%sb%%vc\", %q, %q) = %q", lst[0], lst[1], got)
		}
	}
	// Redact / StripMarkers distribute over the composition
	var rp, sp []string
	for _, p := range lst {
		rp = append(rp, string(p.Redact()))
		sp = append(sp, p.StripMarkers())
	}
	if string(got.Redact()) != strings.Join(rp, string(dl.Redact())) {
		return fmt.Sprintf("Redact(Join(%q, %q)) = %q does not distribute", dl, lst, got.Redact())
	}
	if got.StripMarkers() != strings.Join(sp, dl.StripMarkers()) {
		return fmt.Sprintf("StripMarkers(Join(%q, %q)) = %q does not distribute", dl, lst, got.StripMarkers())
	}
	return ""
}

// --- sinks: a redactable handed to Print/Printf of every SafeWriter implementation, in every state the sink may be
// in (fresh, after a safe write, after an unsafe write, after a Print), alone and with neighbours, in both forms.

var c08SinkPrefixes = []struct {
	Op  *Op
	Out string
}{
	{nil, ""},
	{func() *Op { o := mkOp(kSafeString, "s"); return &o }(), "s"},
	{func() *Op { o := mkOp(kUnsafeString, "u"); return &o }(), mStart + "u" + mEnd},
	{func() *Op { o := mkPrint(1); return &o }(), mStart + "1" + mEnd},
	{func() *Op { o := mkOp(kUnsafeString, ""); return &o }(), ""},
	// the sink holds text that ends in the first byte(s) of a marker, not yet flushed
	{func() *Op { o := mkOp(kSafeString, "h\xe2"); return &o }(), "h\xe2?"},
	{func() *Op { o := mkOp(kSafeString, "h\xe2\x80"); return &o }(), "h\xe2\x80?"},
	{func() *Op { o := mkOp(kUnsafeString, "u\xe2\x80"); return &o }(), mStart + "u\xe2\x80?" + mEnd},
	{func() *Op { o := mkPrint(redact.Safe("p\xe2")); return &o }(), "p\xe2?"},
}

var c08SinkShapes = []string{"Print(r)", "Print(r, r)", "Printf(%v, r)", "Printf(%s|%s, r, r)", "Print(r) Print(r)", "Print(r, 1)", "Print(r, \"\")", "Printf(%s%s., r, \"\")", "Print(r) UnsafeString(\"\") SafeString(.)", "Print(\"\", r)"}

func c08Sink(r redact.RedactableString, asBytes bool, impl, pre, shape int) string {
	var val interface{} = r
	if asBytes {
		val = redact.RedactableBytes(r)
	}
	var body []Op
	var want string
	switch shape {
	case 0:
		body, want = []Op{mkPrint(val)}, string(redact.Sprint(val))
	case 1:
		body, want = []Op{mkPrint(val, val)}, string(redact.Sprint(val, val))
	case 2:
		body, want = []Op{mkPrintf("%v", val)}, string(redact.Sprintf("%v", val))
	case 3:
		body, want = []Op{mkPrintf("%s|%s", val, val)}, string(redact.Sprintf("%s|%s", val, val))
	case 4:
		body, want = []Op{mkPrint(val), mkPrint(val)}, string(redact.Sprint(val))+string(redact.Sprint(val))
	case 5:
		body, want = []Op{mkPrint(val, 1)}, string(redact.Sprint(val, 1))
	case 6:
		// an operand that prints nothing right after the redactable: nothing may be taken back from r
		body, want = []Op{mkPrint(val, "")}, string(r) // no space: Sprint separates operands only when NEITHER is a string
	case 7:
		body, want = []Op{mkPrintf("%s%s.", val, "")}, string(r)+"."
	case 8:
		body, want = []Op{mkPrint(val), mkOp(kUnsafeString, ""), mkOp(kSafeString, ".")}, string(r)+"."
	default:
		body, want = []Op{mkPrint("", val)}, string(r)
	}
	var ops []*Op
	if p := c08SinkPrefixes[pre]; p.Op != nil {
		ops = append(ops, p.Op)
	}
	for i := range body {
		ops = append(ops, &body[i])
	}
	want = c08SinkPrefixes[pre].Out + want
	switch impl {
	case implCtxBefore:
		want = string(redact.Sprintf("%s ", ctxBeforeU.S)) + want
	case implCtxAfter:
		want = want + string(redact.Sprintf("|%s", ctxAfterU.S))
	}
	var got []byte
	if pv, pan := recoverTo(func() { got = runImpl(impl, ops) }); pan {
		return fmt.Sprintf("%s: %s after %v on %q (bytes=%v) panics: %v", implNames[impl], c08SinkShapes[shape], opNames(ops[:len(ops)-len(body)]), r, asBytes, pv)
	}
	if string(Norm(got)) != string(Norm([]byte(want))) {
		return fmt.Sprintf("%s: ops %v with r=%q (bytes=%v) give %q, want %q (what came before, then the redactable as top-level Sprint/Sprintf prints it; up to merging of adjacent envelopes)", implNames[impl], opNames(ops), r, asBytes, got, want)
	}
	return ""
}

func checkC08(c *Ctx) {
	seeds := c08Seeds()
	sp := quickDirectives()
	if !c.Quick() {
		sp = fullDirectives()
		sp.Wids = []int{0, 1, 3, 6, 7}
	}
	nh := len(c08Holders)
	c.Section("C08/identity", map[string]interface{}{"redactables": len(seeds), "directives": sp.Size(), "holders": nh, "forms": "RedactableString and RedactableBytes"}, sp.Size(), func(i int, w *Worker) {
		d := sp.Get(i)
		for ri := range seeds {
			for hi := 0; hi < nh; hi++ {
				for b := 0; b < 2; b++ {
					w.Eval()
					if dt := c08Holder(d, seeds[ri], hi, b == 1, w.SeenS); dt != "" {
						w.Fail("identity:"+c08Holders[hi].Name, map[string]interface{}{"D": d, "R": ri, "H": hi, "B": b}, dt)
					}
				}
			}
		}
		if i%499 == 0 {
			w.Sample(map[string]interface{}{"directive": d.String(), "redactable": q(string(seeds[7])), "in []interface{}": q(string(redact.Sprintf("%v", []interface{}{seeds[7], 1})))})
		}
	})
	u := universe()
	var lists [][]int
	for i := range u {
		lists = append(lists, []int{i})
		for j := range u {
			if c.Quick() && (i+j)%5 != 0 {
				continue
			}
			lists = append(lists, []int{i, j})
		}
	}
	redact.RegisterRedactErrorFn(scriptedHook)
	nPre, nSh := len(c08SinkPrefixes), len(c08SinkShapes)
	c.Section("C08/sinks", map[string]interface{}{"redactables": len(seeds), "forms": 2, "implementations": implNames, "sink_states": nPre, "call_shapes": c08SinkShapes}, len(seeds)*nImpl, func(i int, w *Worker) {
		r, impl := seeds[i/nImpl], i%nImpl
		for pre := 0; pre < nPre; pre++ {
			for sh := 0; sh < nSh; sh++ {
				for _, asBytes := range []bool{false, true} {
					w.Eval()
					if dt := c08Sink(r, asBytes, impl, pre, sh); dt != "" {
						w.Fail("sink:"+implNames[impl], map[string]interface{}{"R": []byte(r), "Bytes": asBytes, "Impl": impl, "Pre": pre, "Shape": sh}, dt)
					}
				}
			}
		}
		w.SeenS(string(r))
	})
	redact.RegisterRedactErrorFn(nil)
	nHeld := len(c08HeldCalls)
	c.Section("C08/held-operand", map[string]interface{}{"redactables": len(seeds), "forms": 2, "calls": nHeld, "pairs": "every ordered pair of calls on the SAME operand held in a slice with spare capacity", "oracle": "both results are the concatenation; the first result, the operand and the memory behind the operand are unchanged after the second call"}, len(seeds)*nHeld, func(i int, w *Worker) {
		r, c1 := seeds[i/nHeld], i%nHeld
		for c2 := 0; c2 < nHeld; c2++ {
			for _, asBytes := range []bool{false, true} {
				w.Eval()
				if dt := c08Held(r, asBytes, c1, c2); dt != "" {
					w.Fail("held-operand", map[string]interface{}{"R": []byte(r), "Bytes": asBytes, "C1": c1, "C2": c2}, dt)
				}
			}
		}
		w.SeenS(string(r))
	})
	c.Section("C08/reprint", map[string]interface{}{"argument_lists": len(lists), "rounds": 3}, len(lists), func(i int, w *Worker) {
		w.Eval()
		if d := c08Reprint(lists[i], w.SeenS); d != "" {
			w.Fail("reprint", map[string]interface{}{"Vs": lists[i]}, d)
		}
	})
	ns := len(seeds)
	se := NewSeqEnum(ns, 3)
	c.Section("C08/concat", map[string]interface{}{"redactables": ns, "max_list": 3, "delimiters": len(joinDelims), "writers": "Join, JoinTo(StringBuilder), JoinTo(printer)"}, se.Total+1, func(i int, w *Worker) {
		var rs []int
		if i < se.Total {
			rs = se.Get(i, nil)
		}
		for di := range joinDelims {
			w.Eval()
			if d := c08Concat(rs, di, w.SeenS); d != "" {
				w.Fail("concat", map[string]interface{}{"Rs": rs, "D": di}, d)
			}
		}
	})
	// systematic long family: one Join per list length 0..70 (and per delimiter, per rotation of the seeds)
	c.Section("C08/concat-long", map[string]interface{}{"list_lengths": "every length 0..70", "delimiters": len(joinDelims), "rotations": ns}, 71*ns, func(i int, w *Worker) {
		n, rot := i/ns, i%ns
		rs := make([]int, n)
		for k := range rs {
			rs[k] = (k + rot) % ns
		}
		for di := range joinDelims {
			w.Eval()
			if d := c08Concat(rs, di, w.SeenS); d != "" {
				w.Fail("concat-long", map[string]interface{}{"Rs": rs, "D": di}, d)
			}
		}
	})
	replayers["C08/concat-long"] = replayers["C08/concat"]
	c.Assume("redactables are those obtainable from the library within two rounds of printing/joining from 13 seeds; deeper histories are covered by the 3-round re-print identity (a fixpoint after one round)")
}

// --- held operands: the caller keeps the redactable (in a reused scratch slice with room to spare) and prints it
// again; printing copies, so neither an earlier result nor the caller's memory may change.

var c08HeldCalls = []string{"Sprintf(%s: first)", "Sprintf(%v|other|%d)", "Sprint(r, tail)", "StringBuilder.Printf(%v %d); UnsafeString", "Sprintf(%s%s) twice", "StringBuilder.Print(r); SafeString", "Fprint(r, x)", "Sprintf(- %s)", "Join(r, r)"}

// c08HeldCall returns the result and what it must be
func c08HeldCall(k int, op interface{}, r string) (got, want string) {
	switch k {
	case 0:
		return string(redact.Sprintf("%s: first", op)), r + ": first"
	case 1:
		return string(redact.Sprintf("%v|other|%d", op, redact.Safe(12345))), r + "|other|12345"
	case 2:
		return string(redact.Sprint(op, redact.RedactableString(" A"+mStart+"t"+mEnd))), r + " A" + mStart + "t" + mEnd
	case 3:
		var sb redact.StringBuilder
		sb.Printf("%v %d", op, redact.Safe(1))
		sb.UnsafeString("u")
		return string(sb.RedactableString()), r + " 1" + mStart + "u" + mEnd
	case 4:
		return string(redact.Sprintf("%s%s", op, op)), r + r
	case 5:
		var sb redact.StringBuilder
		sb.Print(op)
		sb.SafeString(" built")
		sb.SafeRune('!')
		return string(sb.RedactableString()), r + " built!"
	case 6:
		var out bytes.Buffer
		redact.Fprint(&out, op, redact.RedactableString("-x"))
		return out.String(), r + "-x"
	case 7:
		return string(redact.Sprintf("- %s", op)), "- " + r
	default:
		if rs, ok := op.(redact.RedactableString); ok {
			return string(redact.Join("/", []redact.RedactableString{rs, rs})), r + "/" + r
		}
		var sb redact.StringBuilder
		redact.JoinTo(&sb, "/", []redact.RedactableBytes{op.(redact.RedactableBytes), op.(redact.RedactableBytes)})
		return string(sb.RedactableString()), r + "/" + r
	}
}

func c08Held(r redact.RedactableString, asBytes bool, c1, c2 int) string {
	const spare = 96
	back := make([]byte, len(r), len(r)+spare)
	copy(back, r)
	full := back[:cap(back)]
	for i := len(r); i < len(full); i++ {
		full[i] = 0xAA
	}
	var op interface{} = redact.RedactableBytes(back)
	if !asBytes {
		op = redact.RedactableString(r)
	}
	var g1, w1, g2, w2 string
	if pv, pan := recoverTo(func() {
		g1, w1 = c08HeldCall(c1, op, string(r))
	}); pan {
		return fmt.Sprintf("%s on %q panics: %v", c08HeldCalls[c1], r, pv)
	}
	if g1 != w1 {
		return fmt.Sprintf("%s with r=%q (bytes=%v) = %q, want %q", c08HeldCalls[c1], r, asBytes, g1, w1)
	}
	if pv, pan := recoverTo(func() {
		g2, w2 = c08HeldCall(c2, op, string(r))
	}); pan {
		return fmt.Sprintf("%s on %q panics: %v", c08HeldCalls[c2], r, pv)
	}
	if g2 != w2 {
		return fmt.Sprintf("%s and then %s on the same operand r=%q (bytes=%v): the second = %q, want %q", c08HeldCalls[c1], c08HeldCalls[c2], r, asBytes, g2, w2)
	}
	if g1 != w1 {
		return fmt.Sprintf("%s on r=%q (bytes=%v) returned %q; after %s on the same operand that result reads %q", c08HeldCalls[c1], r, asBytes, w1, c08HeldCalls[c2], g1)
	}
	if string(back) != string(r) {
		return fmt.Sprintf("the operand %q was changed to %q by printing it", r, back)
	}
	for i := len(r); i < len(full); i++ {
		if full[i] != 0xAA {
			return fmt.Sprintf("printing the operand %q (held in a slice of capacity %d) wrote into the caller's memory behind it: %q", r, cap(back), full[len(r):])
		}
	}
	return ""
}

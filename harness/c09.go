package main

import (
	"bytes"
	"encoding/json"
	"fmt"
	"unicode/utf8"

	redact "github.com/cockroachdb/redact"
	"github.com/cockroachdb/redact/internal/buffer"
)

func init() {
	checks["C09"] = checkC09
	rules["C09"] = "all SafeWriter call sequences up to the stated depth over the stated alphabet, on 8 implementations/contexts in lock-step with a list-of-segments reference model; explicit-state search over concrete buffer states with step-local invariants; systematic 70-write family; distinct = distinct outputs / distinct canonical buffer states"
	replayers["C09/seq"] = func(c *Ctx, raw json.RawMessage) string {
		var cs seqCase
		json.Unmarshal(raw, &cs)
		al := sigmaNamed(cs.Alpha, cs.Full, cs.Invalid)
		return c09EvalSeq(al, cs.Ops, cs.Hook, true)
	}
	replayers["C09/state"] = func(c *Ctx, raw json.RawMessage) string {
		var cs stateCase
		json.Unmarshal(raw, &cs)
		s := buffer.VerifMake(cs.State)
		for _, op := range bufOps() {
			if op.Name == cs.Op {
				s2 := s.VerifClone()
				op.Apply(&s2)
				return c09StepInvariant(&s, &op, &s2)
			}
		}
		return "unknown op " + cs.Op
	}
	replayers["C09/long"] = func(c *Ctx, raw json.RawMessage) string {
		var cs struct{ Sym, Pos, Impl int }
		json.Unmarshal(raw, &cs)
		return c09Long(cs.Sym, cs.Pos, cs.Impl)
	}
}

type seqCase struct {
	Full    bool     `json:"full_alphabet"`
	Invalid bool     `json:"with_invalid"`
	Hook    bool     `json:"hook_installed"`
	Ops     []int    `json:"ops"`
	Names   []string `json:"names"`
	Alpha   string   `json:"alphabet,omitempty"`
}

type stateCase struct {
	State buffer.VState `json:"state"`
	Op    string        `json:"op"`
}

// wfChecks are the clauses every produced redactable must satisfy (C01/C03 core).
func wfChecks(out []byte) string {
	if !WF(out) {
		return "not well-formed"
	}
	if !LINE(out) {
		return "line feed inside an envelope"
	}
	if HasMarker(Strip(out)) {
		return "removing the delimiters re-assembles a marker from data bytes"
	}
	return ""
}

func c09EvalSeq(al []Op, idx []int, hook bool, doPanicReport bool, seen ...func([]byte)) string {
	ops := make([]*Op, len(idx))
	for i, k := range idx {
		if k >= len(al) {
			return "op index out of range (alphabet changed)"
		}
		ops[i] = &al[k]
	}
	var norms [nImpl][]byte
	var have [nImpl]bool
	for impl := 0; impl < nImpl; impl++ {
		if impl == implHook && !hook {
			continue
		}
		var out []byte
		pv, pan := recoverTo(func() { out = runImpl(impl, ops) })
		if pan {
			if doPanicReport {
				return fmt.Sprintf("%s: panic %v on %v", implNames[impl], pv, opNames(ops))
			}
			continue
		}
		if d := wfChecks(out); d != "" {
			return fmt.Sprintf("%s %v -> %q: %s", implNames[impl], opNames(ops), out, d)
		}
		if impl == implSprintfn && len(seen) > 0 {
			seen[0](out)
		}
		mops := modelOps(impl, ops)
		es, ee, valid := expect(mops)
		if valid {
			if got := Strip(out); !bytes.Equal(got, es) {
				return fmt.Sprintf("%s %v -> %q: stripped %q, want concatenation of escaped payloads %q", implNames[impl], opNames(ops), out, got, es)
			}
			if got := EnvDel(out); !bytes.Equal(got, ee) {
				return fmt.Sprintf("%s %v -> %q: outside envelopes %q, want safe payloads + line feeds of unsafe ones %q", implNames[impl], opNames(ops), out, got, ee)
			}
			if impl < implCtxBefore {
				norms[impl] = Norm(out)
				have[impl] = true
			}
		}
	}
	first := -1
	for impl := 0; impl < nImpl; impl++ {
		if !have[impl] {
			continue
		}
		if first < 0 {
			first = impl
			continue
		}
		if !bytes.Equal(norms[first], norms[impl]) {
			return fmt.Sprintf("%v: %s gives %q but %s gives %q (after merging adjacent envelopes)", opNames(ops), implNames[first], norms[first], implNames[impl], norms[impl])
		}
	}
	return ""
}

// c09StepInvariant: step-local form of the C09 equalities on one transition.
func c09StepInvariant(s *buffer.Buffer, op *bufOp, s2 *buffer.Buffer) string {
	c2 := s2.VerifClone()
	f2 := []byte(c2.RedactableString())
	if d := wfChecks(f2); d != "" {
		return fmt.Sprintf("state %+v --%s--> output %q: %s", s.VerifState(), op.Name, f2, d)
	}
	st := s.VerifState()
	pending := st.Buf[min(max(st.ValidUntil, 0), len(st.Buf)):]
	if !utf8.Valid(pending) || ((op.Kind == 'w' || op.Kind == 'b') && !op.Valid) {
		return ""
	}
	if op.Kind == 'z' {
		if len(f2) != 0 {
			return fmt.Sprintf("state %+v --%s--> prints %q, want nothing", st, op.Name, f2)
		}
		return ""
	}
	c1 := s.VerifClone()
	f1 := []byte(c1.RedactableString())
	var addS, addE []byte
	if op.Kind == 'f' {
		if len(st.Buf) != 0 {
			return "" // no-op on a non-empty buffer (its mode switches are covered by the SetMode ops)
		}
		addS, addE = op.Text, op.Text
	}
	if op.Kind == 'b' {
		switch op.Class {
		case 'U':
			addS, addE = Esc(op.Text), LFs(op.Text)
		case 'S':
			addS, addE = Esc(op.Text), Esc(op.Text)
		default:
			addS, addE = Strip(op.Text), EnvDel(op.Text)
		}
	}
	if op.Kind == 'w' {
		switch st.Mode {
		case buffer.UnsafeEscaped:
			addS, addE = Esc(op.Text), LFs(op.Text)
		case buffer.SafeEscaped:
			addS, addE = Esc(op.Text), Esc(op.Text)
		default:
			addS, addE = Strip(op.Text), EnvDel(op.Text)
		}
	}
	if got, want := Strip(f2), append(Strip(f1), addS...); !bytes.Equal(got, want) {
		return fmt.Sprintf("state %+v (prints %q) --%s--> prints %q: stripped %q, want %q", st, f1, op.Name, f2, got, want)
	}
	if got, want := EnvDel(f2), append(EnvDel(f1), addE...); !bytes.Equal(got, want) {
		return fmt.Sprintf("state %+v (prints %q) --%s--> prints %q: outside envelopes %q, want %q", st, f1, op.Name, f2, got, want)
	}
	return ""
}

var longSyms = []string{mStart, mEnd, "\n", "\xe2", "é", "?"}

// c09Long: 70 single writes 'a' with one special symbol at position pos, through byte/rune/string writes.
func c09Long(sym, pos, impl int) string {
	var ops []*Op
	a := mkOp(kUnsafeString, "a")
	sa := mkOp(kSafeString, "a")
	x := mkOp(kUnsafeString, longSyms[sym])
	sx := mkOp(kSafeString, longSyms[sym])
	for i := 0; i < 70; i++ {
		u := i%7 < 4 // alternate blocks of unsafe and safe writes
		switch {
		case i == pos && u:
			ops = append(ops, &x)
		case i == pos:
			ops = append(ops, &sx)
		case u:
			ops = append(ops, &a)
		default:
			ops = append(ops, &sa)
		}
	}
	var out []byte
	if pv, pan := recoverTo(func() { out = runImpl(impl, ops) }); pan {
		return fmt.Sprintf("%s: panic %v", implNames[impl], pv)
	}
	if d := wfChecks(out); d != "" {
		return fmt.Sprintf("%s long family sym=%q pos=%d -> %q: %s", implNames[impl], longSyms[sym], pos, out, d)
	}
	es, ee, valid := expect(modelOps(impl, ops))
	if valid {
		if !bytes.Equal(Strip(out), es) || !bytes.Equal(EnvDel(out), ee) {
			return fmt.Sprintf("%s long family sym=%q pos=%d -> %q: want stripped %q, outside %q", implNames[impl], longSyms[sym], pos, out, es, ee)
		}
	}
	return ""
}

func precomputeRaw(al []Op) {
	for i := range al {
		if al[i].Class == 'R' {
			// a fragment ending in a dangling partial rune gets a guard at top level only
			al[i].Valid = utf8.Valid(al[i].rawText())
		}
	}
}

// seqAlpha: "" = sigma(full, invalid); "num" = sigmaNum (set around a runSeqSection call)
var seqAlpha = ""

func runSeqSection(c *Ctx, name string, full, invalid bool, depth int, hook bool, eval func(al []Op, idx []int, w *Worker) (class, detail string)) {
	alpha := seqAlpha
	al := sigmaNamed(alpha, full, invalid)
	precomputeRaw(al)
	en := NewSeqEnum(len(al), depth)
	c.Section(name, map[string]interface{}{"alphabet_ops": len(al), "depth": depth, "implementations": implNames, "hook_route": hook}, en.Total, func(i int, w *Worker) {
		idx := en.Get(i, nil)
		w.Eval()
		if cl, d := eval(al, idx, w); d != "" {
			names := make([]string, len(idx))
			for j, k := range idx {
				names[j] = al[k].Name
			}
			w.Fail(cl, seqCase{Full: full, Invalid: invalid, Hook: hook, Ops: idx, Names: names, Alpha: alpha}, d)
		}
		if i%200003 == 0 {
			ops := make([]*Op, len(idx))
			for j, k := range idx {
				ops[j] = &al[k]
			}
			recoverTo(func() {
				w.Sample(map[string]interface{}{"ops": opNames(ops), "StringBuilder": q(string(runImpl(implBuilder, ops)))})
			})
		}
	})
}

func checkC09(c *Ctx) {
	redact.RegisterRedactErrorFn(scriptedHook)
	defer redact.RegisterRedactErrorFn(nil)
	ev := func(al []Op, idx []int, w *Worker) (string, string) {
		d := c09EvalSeq(al, idx, true, false, w.SeenB)
		return "seq-contract", d
	}
	if c.Quick() {
		runSeqSection(c, "C09/seq", false, false, 3, true, ev)
	} else {
		runSeqSection(c, "C09/seq", false, false, 4, true, ev)
		runSeqSection(c, "C09/seq", true, false, 2, true, ev)
	}
	seqAlpha = "num"
	if c.Quick() {
		runSeqSection(c, "C09/seq-numeric", false, false, 2, true, ev)
	} else {
		runSeqSection(c, "C09/seq-numeric", false, false, 3, true, ev)
	}
	seqAlpha = ""
	// systematic long family
	c.Section("C09/long", map[string]interface{}{"writes": 70, "symbols": longSyms, "positions": 70, "implementations": nImpl}, len(longSyms)*70*nImpl, func(i int, w *Worker) {
		impl := i % nImpl
		pos := (i / nImpl) % 70
		sym := i / nImpl / 70
		w.Eval()
		if d := c09Long(sym, pos, impl); d != "" {
			w.Fail("long-family", map[string]int{"Sym": sym, "Pos": pos, "Impl": impl}, d)
		}
		w.Seen(uint64(i))
	})
	// explicit-state search
	depth, maxStates := 5, 400000
	if !c.Quick() {
		depth, maxStates = 8, 3000000
	}
	st := bufferBFS(c, "C09/state", depth, maxStates, nil, func(s *buffer.Buffer, op *bufOp, s2 *buffer.Buffer, w *Worker) {
		if d := c09StepInvariant(s, op, s2); d != "" {
			w.Fail("state-invariant", stateCase{State: s.VerifState(), Op: op.Name}, d)
		}
	})
	c.states += st.States
	c.Note(fmt.Sprintf("explicit-state search: %d canonical buffer states, %d transitions, depth %d, closed=%v, frontier cuts=%d (pending bytes capped at %d)", st.States, st.Transitions, st.Depth, st.Closed, st.FrontierCuts, pendingCap))
	ld := 2
	if !c.Quick() {
		ld = 3
	}
	stL := bufferBFSFrom(c, "C09/state-large", largeInits(largeSizes(c.Quick())), ld, maxStates, nil, func(s *buffer.Buffer, op *bufOp, s2 *buffer.Buffer, w *Worker) {
		if d := c09StepInvariant(s, op, s2); d != "" {
			w.Fail("state-invariant", stateCase{State: s.VerifState(), Op: op.Name}, d)
		}
	})
	c.states += stL.States
	c.Note(fmt.Sprintf("explicit-state search from large buffers (sizes %v, escaped and pending): %d states, %d transitions, depth %d", largeSizes(c.Quick()), stL.States, stL.Transitions, stL.Depth))
	c.Assume("state canonicalisation: every Buffer method reads only mode, markerOpen, the unescaped suffix, the last 4 bytes of the escaped prefix, emptiness and spare capacity; the un-merged sequence enumeration is run as well so a wrong merge can only lose coverage")
	c.Assume("Print/Printf ops are modelled by the library's own top-level Sprint/Sprintf of the same arguments (route agreement is C16)")
}

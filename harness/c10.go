package main

import (
	"bytes"
	"encoding/json"
	"fmt"

	redact "github.com/cockroachdb/redact"
	"github.com/cockroachdb/redact/internal/buffer"
	"github.com/cockroachdb/redact/internal/escape"
)

func init() {
	replayers["C10/long-splits"] = func(c *Ctx, raw json.RawMessage) string {
		var cs struct {
			B         []byte
			Mode, Cut int
		}
		json.Unmarshal(raw, &cs)
		var whole, sp buffer.Buffer
		whole.SetMode(buffer.OutputMode(cs.Mode))
		whole.Write(cs.B)
		sp.SetMode(buffer.OutputMode(cs.Mode))
		sp.Write(cs.B[:cs.Cut])
		sp.WriteString(string(cs.B[cs.Cut:]))
		if a, b := string(whole.RedactableString()), string(sp.RedactableString()); a != b {
			return fmt.Sprintf("one write %q, cut at %d %q", a, cs.Cut, b)
		}
		return ""
	}
	replayers["C10/tails"] = func(c *Ctx, raw json.RawMessage) string {
		var cs c10case
		json.Unmarshal(raw, &cs)
		if d := c10EvalEscape(cs.B, cs.StartLoc, cs.BNL); d != "" {
			return d
		}
		return c10EvalPublic(cs.B)
	}
	checks["C10"] = checkC10
	rules["C10"] = "every byte string over {a,space,LF,?,E2,80,B9,BA} up to the stated length, x every start offset x both line-split settings, compared with an append-only reference model; plus EscapeMarkers/EscapeBytes clauses, all write-splits on ManualBuffer and a systematic long family; distinct = distinct outputs"
	replayers["C10/escape-model"] = func(c *Ctx, raw json.RawMessage) string {
		var cs c10case
		json.Unmarshal(raw, &cs)
		return c10EvalEscape(cs.B, cs.StartLoc, cs.BNL)
	}
	replayers["C10/public"] = func(c *Ctx, raw json.RawMessage) string {
		var cs c10case
		json.Unmarshal(raw, &cs)
		return c10EvalPublic(cs.B)
	}
	replayers["C10/splits"] = func(c *Ctx, raw json.RawMessage) string {
		var cs c10case
		json.Unmarshal(raw, &cs)
		return c10EvalSplits(cs.B, cs.Mode, cs.Mask)
	}
	replayers["C10/bytes-around-linefeeds"] = func(c *Ctx, raw json.RawMessage) string {
		var cs c10case
		json.Unmarshal(raw, &cs)
		if d := c10EvalPublic(cs.B); d != "" {
			return d
		}
		for sl := 0; sl <= len(cs.B); sl++ {
			for _, bnl := range []bool{false, true} {
				if d := c10EvalEscape(cs.B, sl, bnl); d != "" {
					return d
				}
			}
		}
		for mode := 0; mode <= 3; mode++ {
			for mask := 0; len(cs.B) > 0 && mask < 1<<(len(cs.B)-1); mask++ {
				if mode >= 2 && mask == 0 {
					continue
				}
				if d := c10EvalSplits(cs.B, mode, mask); d != "" {
					return d
				}
			}
		}
		return ""
	}
	replayers["C10/long"] = func(c *Ctx, raw json.RawMessage) string {
		var cs c10case
		json.Unmarshal(raw, &cs)
		if d := c10EvalPublic(cs.B); d != "" {
			return d
		}
		for sl := 0; sl <= len(cs.B); sl++ {
			for _, bnl := range []bool{false, true} {
				if d := c10EvalEscape(cs.B, sl, bnl); d != "" {
					return d
				}
			}
		}
		return ""
	}
}

type c10case struct {
	B        []byte `json:"b"`
	Q        string `json:"quoted"`
	StartLoc int    `json:"start_loc"`
	BNL      bool   `json:"break_newlines"`
	Mode     int    `json:"mode"`
	Mask     int    `json:"split_mask"`
}

func c10EvalEscape(b []byte, startLoc int, bnl bool) string {
	in := append(make([]byte, 0, len(b)+8), b...) // spare capacity: in-place appends would show
	got := escape.InternalEscapeBytes(in, startLoc, bnl, false)
	want := escModel(b, startLoc, bnl)
	if !bytes.Equal(got, want) {
		return fmt.Sprintf("InternalEscapeBytes(%q,%d,%v) = %q, model %q", b, startLoc, bnl, got, want)
	}
	if !bytes.Equal(in, b) {
		return fmt.Sprintf("InternalEscapeBytes(%q,%d,%v) modified its input to %q", b, startLoc, bnl, in)
	}
	if startLoc == 0 {
		// property-level clauses
		if !bnl {
			if HasMarker(got) {
				return fmt.Sprintf("escape(%q) = %q still contains a marker", b, got)
			}
			e := Esc(b)
			if !(bytes.Equal(got, e) || (invalidTail(b) && bytes.Equal(got, append(e, '?')))) {
				return fmt.Sprintf("escape(%q) = %q, want %q (+'?' after an invalid tail)", b, got, e)
			}
			again := escape.InternalEscapeBytes(append([]byte(nil), got...), 0, false, false)
			if !bytes.Equal(again, got) {
				return fmt.Sprintf("escape not idempotent on %q: %q then %q", b, got, again)
			}
		}
	}
	return ""
}

func c10EvalPublic(b []byte, rets ...*retained) string {
	var ret *retained
	if len(rets) > 0 {
		ret = rets[0]
	}
	in := append(make([]byte, 0, len(b)+8), b...)
	em := redact.EscapeMarkers(in)
	if !bytes.Equal(in, b) {
		return fmt.Sprintf("EscapeMarkers modified its input %q -> %q", b, in)
	}
	if HasMarker(em) {
		return fmt.Sprintf("EscapeMarkers(%q) = %q contains a marker", b, em)
	}
	if e := Esc(b); !bytes.Equal(em, e) {
		return fmt.Sprintf("EscapeMarkers(%q) = %q, want %q", b, em, e)
	}
	if em2 := redact.EscapeMarkers(em); !bytes.Equal(em2, em) {
		return fmt.Sprintf("EscapeMarkers not idempotent on %q", b)
	}
	ret.keep(em, fmt.Sprintf("EscapeMarkers(%q)", b))
	eb := []byte(redact.EscapeBytes(in))
	ret.keep(eb, fmt.Sprintf("EscapeBytes(%q)", b))
	if d := ret.check(); d != "" {
		return d
	}
	if !bytes.Equal(in, b) {
		return fmt.Sprintf("EscapeBytes modified its input %q -> %q", b, in)
	}
	if !WF(eb) {
		return fmt.Sprintf("EscapeBytes(%q) = %q not well-formed", b, eb)
	}
	if !LINE(eb) {
		return fmt.Sprintf("EscapeBytes(%q) = %q has a line feed inside an envelope", b, eb)
	}
	st := Strip(eb)
	e := Esc(b)
	eq := append(append([]byte(nil), e...), '?')
	switch {
	case truncatedTail(b):
		if !bytes.Equal(st, eq) {
			return fmt.Sprintf("EscapeBytes(%q) stripped = %q, want %q (truncated tail needs the guard)", b, st, eq)
		}
	case invalidTail(b): // statement does not decide: either answer
		if !bytes.Equal(st, e) && !bytes.Equal(st, eq) {
			return fmt.Sprintf("EscapeBytes(%q) stripped = %q, want %q or %q", b, st, e, eq)
		}
	default:
		if !bytes.Equal(st, e) {
			return fmt.Sprintf("EscapeBytes(%q) stripped = %q, want %q", b, st, e)
		}
	}
	if HasMarker(st) {
		return fmt.Sprintf("EscapeBytes(%q): stripping the library's delimiters re-assembles a marker: %q", b, st)
	}
	rd := []byte(redact.RedactableBytes(eb).Redact())
	rest := bytes.ReplaceAll(rd, []byte(mRed), nil)
	if !bytes.Equal(rest, LFs(b)) {
		return fmt.Sprintf("EscapeBytes(%q).Redact() = %q: not only redacted markers + the line feeds of b", b, rd)
	}
	if !bytes.Equal(LFs(rd), LFs(b)) {
		return fmt.Sprintf("EscapeBytes(%q).Redact() = %q: line feeds differ", b, rd)
	}
	return ""
}

// c10EvalSplits writes b into a ManualBuffer in the given mode, once whole and
// once cut after every position whose bit is set in mask.
func c10EvalSplits(b []byte, mode int, mask int) string {
	// mode bit 1: a read-only accessor is called between the pieces (the payload is still split across successive
	// writes made in the same mode; looking at the buffer in between must not matter)
	peek := mode&2 != 0
	mode &= 1
	var whole buffer.Buffer
	whole.SetMode(buffer.OutputMode(mode))
	whole.Write(b)
	want := []byte(whole.RedactableString())
	var sp buffer.Buffer
	sp.SetMode(buffer.OutputMode(mode))
	last, piece := 0, 0
	defer func(m int) {
		if peek {
			mode = m | 2
		}
	}(mode)
	for i := 1; i <= len(b); i++ {
		if i == len(b) || mask&(1<<(i-1)) != 0 {
			if piece%2 == 0 {
				sp.Write(b[last:i])
			} else {
				sp.WriteString(string(b[last:i]))
			}
			if peek && i < len(b) {
				switch piece % 4 {
				case 0:
					_ = sp.RedactableString()
				case 1:
					_ = sp.Len()
				case 2:
					_ = sp.RedactableBytes()
				default:
					_ = sp.String()
				}
			}
			piece++
			last = i
		}
	}
	got := []byte(sp.RedactableString())
	if !bytes.Equal(got, want) {
		if peek {
			return fmt.Sprintf("mode %d payload %q: one write gives %q, split mask %b with an accessor call (RedactableString, Len, RedactableBytes, String in turn) between the pieces gives %q", mode, b, want, mask, got)
		}
		return fmt.Sprintf("mode %d payload %q: one write gives %q, split mask %b gives %q", mode, b, want, mask, got)
	}
	if !WF(got) || !LINE(got) {
		return fmt.Sprintf("mode %d payload %q: output %q not well-formed/line-safe", mode, b, got)
	}
	st := Strip(got)
	e := Esc(b)
	eq := append(append([]byte(nil), e...), '?')
	switch {
	case truncatedTail(b): // the statement demands the guard
		if !bytes.Equal(st, eq) {
			return fmt.Sprintf("mode %d payload %q: stripped %q, want %q (a truncated multi-byte tail needs the guard)", mode, b, st, eq)
		}
	case invalidTail(b): // ill-formed but not a truncated sequence: the statement does not decide
		if !bytes.Equal(st, e) && !bytes.Equal(st, eq) {
			return fmt.Sprintf("mode %d payload %q: stripped %q, want %q or %q", mode, b, st, e, eq)
		}
	default:
		if !bytes.Equal(st, e) {
			return fmt.Sprintf("mode %d payload %q: stripped %q, want %q", mode, b, st, e)
		}
	}
	return ""
}

func checkC10(c *Ctx) {
	n := 6
	nSplit := 6
	if !c.Quick() {
		n = 8
		nSplit = 7
	}
	en := NewStrEnum(alphaB, n)
	c.Section("C10/escape-model", map[string]interface{}{"alphabet": alphaB, "max_len": n, "start_offsets": "all", "break_newlines": "both"}, en.Total, func(i int, w *Worker) {
		b := en.Get(i, nil)
		for sl := 0; sl <= len(b); sl++ {
			for _, bnl := range []bool{false, true} {
				w.Eval()
				if d := c10EvalEscape(b, sl, bnl); d != "" {
					w.Fail("escape-model", c10case{B: b, Q: q(string(b)), StartLoc: sl, BNL: bnl}, d)
				}
			}
		}
		w.SeenB(escape.InternalEscapeBytes(append([]byte(nil), b...), 0, true, false))
		if i%9973 == 0 {
			w.Sample(map[string]interface{}{"b": q(string(b)), "escaped(bnl)": q(string(escModel(b, 0, true)))})
		}
	})
	// neighbour bytes of every marker byte (bit-trick comparisons), other lead bytes, the cross
	alphaExt := append(append([]string{}, alphaB...), "\xb8", "\xbb", "\x81", "\x7f", "\xe1", "\xe3", "\xc3", "\x97", "\xff")
	ne := n - 1
	ex := NewStrEnum(alphaExt, ne)
	c.Section("C10/escape-model-ext", map[string]interface{}{"alphabet": alphaExt, "max_len": ne, "start_offsets": "all", "break_newlines": "both"}, ex.Total, func(i int, w *Worker) {
		b := ex.Get(i, nil)
		for sl := 0; sl <= len(b); sl++ {
			for _, bnl := range []bool{false, true} {
				w.Eval()
				if d := c10EvalEscape(b, sl, bnl); d != "" {
					w.Fail("escape-model", c10case{B: b, Q: q(string(b)), StartLoc: sl, BNL: bnl}, d)
				}
			}
		}
		w.Eval()
		if d := c10EvalPublic(b); d != "" {
			w.Fail("public", c10case{B: b, Q: q(string(b))}, d)
		}
		w.SeenB(b)
	})
	replayers["C10/escape-model-ext"] = replayers["C10/escape-model"]
	// every tail: the rule "one '?' after a truncated multi-byte sequence at the end" must separate every valid
	// encoding (U+FFFD itself included) from every truncated or ill-formed one. All 1- and 2-byte tails, all 3-byte
	// tails with a 3-byte lead (quick) / all 2^24 (thorough), 4-byte tails with a 4-byte lead over a continuation
	// subset; each after the prefixes "", "a", start marker.
	tailN := 256 + 65536 + 16*65536
	if !c.Quick() {
		tailN = 256 + 65536 + 256*65536
	}
	cont4 := []byte{0x80, 0x8f, 0x90, 0xbf, 0xbd, 0x7f, 0xc0}
	tailN4 := 5 * len(cont4) * len(cont4) * len(cont4)
	c.Section("C10/tails", map[string]interface{}{"tails": tailN + tailN4, "prefixes": []string{"", "a", mStart}}, (tailN+tailN4+255)/256, func(blk int, w *Worker) {
		buf := make([]byte, 0, 16)
		for i := blk * 256; i < (blk+1)*256 && i < tailN+tailN4; i++ {
			var tail []byte
			switch {
			case i < 256:
				tail = []byte{byte(i)}
			case i < 256+65536:
				j := i - 256
				tail = []byte{byte(j >> 8), byte(j)}
			case i < tailN:
				j := i - 256 - 65536
				b0 := byte(j >> 16)
				if c.Quick() {
					b0 = 0xe0 + byte(j>>16)
				}
				tail = []byte{b0, byte(j >> 8), byte(j)}
			default:
				j := i - tailN
				n := len(cont4)
				tail = []byte{0xf0 + byte(j/(n*n*n)), cont4[j/(n*n)%n], cont4[j/n%n], cont4[j%n]}
			}
			for _, pre := range []string{"", "a", mStart} {
				buf = append(append(buf[:0], pre...), tail...)
				w.Eval()
				if d := c10EvalEscape(buf, 0, i%2 == 0); d != "" {
					w.Fail("escape-model", c10case{B: append([]byte(nil), buf...), Q: q(string(buf)), StartLoc: 0, BNL: i%2 == 0}, d)
				}
				if d := c10EvalPublic(buf); d != "" {
					w.Fail("public", c10case{B: append([]byte(nil), buf...), Q: q(string(buf))}, d)
				}
				// the same tail written to a ManualBuffer (the buffer decides by itself when to run the escaper)
				for mode := 0; mode <= 1; mode++ {
					if d := c10EvalSplits(buf, mode, 0); d != "" {
						w.Fail("splits", c10case{B: append([]byte(nil), buf...), Q: q(string(buf)), Mode: mode, Mask: 0}, d)
					}
					if len(buf) > 1 {
						if d := c10EvalSplits(buf, mode, 1<<(len(buf)-2)); d != "" {
							w.Fail("splits", c10case{B: append([]byte(nil), buf...), Q: q(string(buf)), Mode: mode, Mask: 1 << (len(buf) - 2)}, d)
						}
					}
				}
			}
		}
		w.Seen(uint64(blk))
	})
	c.Section("C10/public", map[string]interface{}{"alphabet": alphaB, "max_len": n, "functions": "EscapeMarkers, EscapeBytes"}, en.Total, func(i int, w *Worker) {
		b := en.Get(i, nil)
		w.Eval()
		if d := c10EvalPublic(b, w.Retained()); d != "" {
			w.Fail("public", c10case{B: b, Q: q(string(b))}, d)
		}
		w.SeenB(redact.EscapeBytes(b))
		if i%9973 == 1 {
			w.Sample(map[string]interface{}{"b": q(string(b)), "EscapeBytes": q(string(redact.EscapeBytes(b)))})
		}
	})
	es := NewStrEnum(alphaB, nSplit)
	c.Section("C10/splits", map[string]interface{}{"alphabet": alphaB, "max_len": nSplit, "modes": "UnsafeEscaped, SafeEscaped", "splits": "all 2^(len-1) compositions, each also with an accessor call between the pieces"}, es.Total, func(i int, w *Worker) {
		b := es.Get(i, nil)
		if len(b) == 0 {
			return
		}
		for mode := 0; mode <= 3; mode++ {
			for mask := 0; mask < 1<<(len(b)-1); mask++ {
				if mode >= 2 && mask == 0 {
					continue
				}
				w.Eval()
				if d := c10EvalSplits(b, mode, mask); d != "" {
					w.Fail("splits", c10case{B: b, Q: q(string(b)), Mode: mode, Mask: mask}, d)
				}
			}
		}
		var mb buffer.Buffer
		mb.Write(b)
		w.SeenS(string(mb.RedactableString()))
	})
	// every byte value next to line feeds: the property names line feeds as the ONLY bytes of the payload that may
	// end up outside the envelopes; a splitter that treats another byte (CR, VT, FF, NEL, ...) as part of a line
	// break moves it out
	lfPatterns := []string{"X", "\nX", "X\n", "\nX\n", "a\nX\nb", "aX\nX\nb", "XX\n\nX", "a\n\nX\n\nb", "aX\n"}
	c.Section("C10/bytes-around-linefeeds", map[string]interface{}{"byte_values": 256, "patterns": lfPatterns, "checks": "escape model at every start offset; EscapeMarkers/EscapeBytes; every split over both ManualBuffer modes"}, 256*len(lfPatterns), func(i int, w *Worker) {
		x, pat := byte(i/len(lfPatterns)), lfPatterns[i%len(lfPatterns)]
		b := bytes.ReplaceAll([]byte(pat), []byte("X"), []byte{x})
		for sl := 0; sl <= len(b); sl++ {
			for _, bnl := range []bool{false, true} {
				w.Eval()
				if d := c10EvalEscape(b, sl, bnl); d != "" {
					w.Fail("escape-model", c10case{B: b, Q: q(string(b)), StartLoc: sl, BNL: bnl}, d)
				}
			}
		}
		w.Eval()
		if d := c10EvalPublic(b); d != "" {
			w.Fail("public", c10case{B: b, Q: q(string(b))}, d)
		}
		for mode := 0; mode <= 3; mode++ {
			for mask := 0; mask < 1<<(len(b)-1); mask++ {
				if mode >= 2 && mask == 0 {
					continue
				}
				w.Eval()
				if d := c10EvalSplits(b, mode, mask); d != "" {
					w.Fail("splits", c10case{B: b, Q: q(string(b)), Mode: mode, Mask: mask}, d)
				}
			}
		}
		w.SeenB(b)
	})
	// systematic long family (crosses the 64-byte first allocation and the doubling)
	ins := []string{mStart, mEnd, "\n", "\n\n", "\xe2", "\xe2\x80", "\x80\xb9", mStart + mEnd, "\n" + mStart, mEnd + "\n", "?", mRed}
	c.Section("C10/long", map[string]interface{}{"length": 70, "inserted": len(ins), "positions": "every offset 0..70"}, len(ins)*71, func(i int, w *Worker) {
		x, pos := ins[i/71], i%71
		b := append(bytes.Repeat([]byte("a"), pos), x...)
		b = append(b, bytes.Repeat([]byte("a"), 70-pos)...)
		w.Eval()
		if d := replayers["C10/long"](c, mustJSON(c10case{B: b})); d != "" {
			w.Fail("long", c10case{B: b, Q: q(string(b))}, d)
		}
		w.SeenB(redact.EscapeBytes(b))
	})
	// long payloads cut in two at EVERY position (a write boundary may fall inside a marker, after a long clean chunk)
	lens := []int{0, 1, 7, 14, 15, 16, 17, 31, 32, 33, 40, 61, 62, 63, 64, 65, 70}
	c.Section("C10/long-splits", map[string]interface{}{"prefix_lengths": lens, "inserted": len(ins), "cuts": "every position", "modes": 2}, len(ins)*len(lens), func(i int, w *Worker) {
		x, n := ins[i/len(lens)], lens[i%len(lens)]
		b := append(bytes.Repeat([]byte("x"), n), x...)
		b = append(b, " secret"...)
		for mode := 0; mode <= 1; mode++ {
			var whole buffer.Buffer
			whole.SetMode(buffer.OutputMode(mode))
			whole.Write(b)
			want := string(whole.RedactableString())
			for cut := 0; cut <= len(b); cut++ {
				w.Eval()
				var sp buffer.Buffer
				sp.SetMode(buffer.OutputMode(mode))
				sp.Write(b[:cut])
				sp.WriteString(string(b[cut:]))
				got := string(sp.RedactableString())
				var sb redact.StringBuilder
				if mode == 0 {
					sb.UnsafeBytes(b[:cut])
					sb.UnsafeString(string(b[cut:]))
				} else {
					sb.SafeBytes(b[:cut])
					sb.SafeString(redact.SafeString(b[cut:]))
				}
				got2 := string(sb.RedactableString())
				if got != want || got2 != want {
					w.Fail("long-splits", map[string]interface{}{"B": b, "Mode": mode, "Cut": cut}, fmt.Sprintf("mode %d payload %q: one write gives %q; cut at %d: ManualBuffer %q, StringBuilder %q", mode, b, want, cut, got, got2))
				}
			}
		}
		w.SeenB(b)
	})
	c.Assume("alphabet argument: the scanner looks ahead exactly 3 bytes and its tail guard at most 4; every byte of both markers is a symbol, so every alignment of a (partial) marker against the end of input, the start offset and a neighbouring marker occurs")
}

func mustJSON(x interface{}) json.RawMessage {
	b, err := json.Marshal(x)
	if err != nil {
		panic(err)
	}
	return b
}

package main

import (
	"bytes"
	"encoding/json"
	"errors"
	"fmt"
	"strings"
	"unicode/utf8"

	redact "github.com/cockroachdb/redact"
	"github.com/cockroachdb/redact/internal/buffer"
)

func init() {
	replayers["C11/redactable-operands"] = func(c *Ctx, raw json.RawMessage) string {
		var cs struct {
			R     []byte
			Bytes bool
			Ctx   int
		}
		json.Unmarshal(raw, &cs)
		var val interface{} = redact.RedactableString(cs.R)
		if cs.Bytes {
			val = redact.RedactableBytes(cs.R)
		}
		if pv, pan := recoverTo(func() { c11RedCtx[cs.Ctx].Run(val) }); pan {
			return fmt.Sprintf("%s with r = %T(%q) panics: %v", c11RedCtx[cs.Ctx].Name, val, cs.R, pv)
		}
		return ""
	}
	replayers["C11/after-propagated-panic"] = func(c *Ctx, raw json.RawMessage) string {
		var cs struct{ Propagator, Probe int }
		if json.Unmarshal(raw, &cs) != nil {
			return "unreadable case"
		}
		p := c11Probes()[cs.Probe]
		var ref, got string
		if pv, pan := recoverTo(func() { ref = p.run() }); pan {
			return fmt.Sprintf("%s panics in a fresh process: %v", p.name, pv)
		}
		recoverTo(c11Propagators[cs.Propagator].Run)
		if pv, pan := recoverTo(func() { got = p.run() }); pan {
			return fmt.Sprintf("after %s, the call %s lets the panic escape: %v", c11Propagators[cs.Propagator].Name, p.name, pv)
		}
		if got != ref {
			return fmt.Sprintf("after %s, the call %s returns %q, before it returned %q", c11Propagators[cs.Propagator].Name, p.name, got, ref)
		}
		return ""
	}
	checks["C11"] = checkC11
	rules["C11"] = "whole parameter domains: every rune in [-2,0x110001] and every byte through every rune/byte writer of every implementation in three buffer states; every format string of <=k tokens and all 1-2 byte formats; JoinTo operands of every reflect.Kind x 3 writers; user methods panicking at every position of every <=3-op body with 6 payload kinds at nesting depth <=2; distinct = distinct outputs"
	replayers["C11/runes"] = func(c *Ctx, raw json.RawMessage) string {
		var cs struct{ R, Kind, Impl, Pre int }
		json.Unmarshal(raw, &cs)
		return c11Rune(rune(cs.R), cs.Kind, cs.Impl, cs.Pre)
	}
	replayers["C11/bytes"] = func(c *Ctx, raw json.RawMessage) string {
		var cs struct{ B, Kind, Impl, Pre int }
		json.Unmarshal(raw, &cs)
		return c11Byte(byte(cs.B), cs.Kind, cs.Impl, cs.Pre)
	}
	replayers["C11/formats"] = func(c *Ctx, raw json.RawMessage) string {
		var cs struct {
			F []byte
			A int
		}
		json.Unmarshal(raw, &cs)
		return c11Format(string(cs.F), cs.A)
	}
	replayers["C11/universe"] = func(c *Ctx, raw json.RawMessage) string {
		var cs struct {
			D Directive
			V int
		}
		json.Unmarshal(raw, &cs)
		f, stars := cs.D.Format()
		u := universe()
		return c11Universe(f, stars, &u[cs.V])
	}
	replayers["C11/joinTo"] = func(c *Ctx, raw json.RawMessage) string {
		var cs struct{ V, W, D int }
		json.Unmarshal(raw, &cs)
		return c11Join(cs.V, cs.W, cs.D)
	}
	replayers["C11/after-panic"] = func(c *Ctx, raw json.RawMessage) string {
		var cs struct {
			Verb          string
			Method, Shape int
		}
		json.Unmarshal(raw, &cs)
		return c11AfterPanic(cs.Verb, cs.Method, cs.Shape)
	}
	replayers["C11/panics"] = func(c *Ctx, raw json.RawMessage) string {
		var cs panicCase
		json.Unmarshal(raw, &cs)
		return c11Panic(cs)
	}
}

var preOps = [][]*Op{nil, {opPtr(mkOp(kSafeString, "s"))}, {opPtr(mkOp(kUnsafeString, "u"))}, {opPtr(mkOp(kUnsafeString, "u\xe2"))}}
var preNames = []string{"empty", "after safe write", "inside open envelope", "open envelope ending in a partial rune"}

func opPtr(o Op) *Op { return &o }

var c11Impls = []int{implBuilder, implManual, implSprintfn, implSafeFormat, implFormatter, implCtxBefore}

func c11RunOne(o *Op, impl, pre int) string {
	ops := append(append([]*Op{}, preOps[pre]...), o)
	var before, out []byte
	if pv, pan := recoverTo(func() { before = runImpl(impl, preOps[pre]) }); pan {
		return fmt.Sprintf("prefix panics: %v", pv)
	}
	if pv, pan := recoverTo(func() { out = runImpl(impl, ops) }); pan {
		return fmt.Sprintf("%s, %s: %s panics: %v", implNames[impl], preNames[pre], o.Name, pv)
	}
	if d := wfChecks(out); d != "" {
		return fmt.Sprintf("%s, %s: %s -> %q: %s", implNames[impl], preNames[pre], o.Name, out, d)
	}
	sb, so := Strip(before), Strip(out)
	if impl == implCtxBefore {
		// nothing follows the scripted value in this context, so prefix comparison applies as well
	}
	// previously written output is preserved (a trailing guard '?' of the prefix may be absorbed)
	pb := sb
	if pre == 3 && bytes.HasSuffix(pb, []byte("?")) {
		pb = pb[:len(pb)-1]
	}
	if !bytes.HasPrefix(so, pb) {
		return fmt.Sprintf("%s, %s: %s loses earlier output: before %q after %q", implNames[impl], preNames[pre], o.Name, sb, so)
	}
	rest := so[len(pb):]
	if len(rest) == 0 {
		return fmt.Sprintf("%s, %s: %s rendered nothing (%q -> %q)", implNames[impl], preNames[pre], o.Name, before, out)
	}
	if o.Valid && pre != 3 {
		if want := Esc(o.Text); !bytes.Equal(rest, want) {
			return fmt.Sprintf("%s, %s: %s rendered %q, want %q", implNames[impl], preNames[pre], o.Name, rest, want)
		}
	}
	return ""
}

var runeKinds = []opKind{kSafeRune, kUnsafeRune, kWriteRune}
var byteKinds = []opKind{kSafeByte, kUnsafeByte, kWriteByte}

func c11Rune(r rune, kind, impl, pre int) string {
	o := mkRuneOp(runeKinds[kind], r)
	return c11RunOne(&o, impl, pre)
}
func c11Byte(b byte, kind, impl, pre int) string {
	o := mkByteOp(byteKinds[kind], b)
	return c11RunOne(&o, impl, pre)
}

// --- format strings ---------------------------------------------------------

var fmtTokens = []string{"%", "v", "d", "s", "x", "w", "+", "-", "#", " ", "0", "1", "5", ".", "*", "[1]", "[2]", "[9]", "[", "]", "a", mStart, "\n", "\xe2", "\xc3", "1000001", "99999999999999999999", "[99999999999999999999]"}

var c11ArgLists = [][]interface{}{
	{},
	{"s" + mEnd + "\n", 3},
	{7, errors.New("e" + mStart), "z"},
	{nil, []interface{}{1, "a"}, 2.5},
	{-1, 2, "x"},
}

func c11Format(f string, ai int) string {
	args := c11ArgLists[ai]
	var out redact.RedactableString
	if pv, pan := recoverTo(func() { out = redact.Sprintf(f, args...) }); pan {
		return fmt.Sprintf("Sprintf(%q, %v) panics: %v", f, args, pv)
	}
	if d := wfChecks([]byte(out)); d != "" {
		return fmt.Sprintf("Sprintf(%q, %v) = %q: %s", f, args, out, d)
	}
	var b redact.StringBuilder
	if pv, pan := recoverTo(func() { b.Printf(f, args...) }); pan {
		return fmt.Sprintf("StringBuilder.Printf(%q, %v) panics: %v", f, args, pv)
	}
	if pv, pan := recoverTo(func() { redact.HelperForErrorf(f, args...) }); pan {
		return fmt.Sprintf("HelperForErrorf(%q, %v) panics: %v", f, args, pv)
	}
	return ""
}

func c11Universe(f string, stars []interface{}, v *Val) string {
	x := v.Mk(0)
	args := append(append([]interface{}{}, stars...), x)
	_, panF := recoverTo(func() { fmt.Sprintf(f, args...) })
	if panF {
		return "" // fmt panics too (double panic): propagation is allowed
	}
	_, panV := recoverTo(func() { fmt.Sprint(x) })
	type ep struct {
		name string
		run  func()
	}
	eps := []ep{
		{"Sprintf", func() { redact.Sprintf(f, args...) }},
		{"StringBuilder.Printf", func() { var b redact.StringBuilder; b.UnsafeString("kept"); b.Printf(f, args...) }},
		{"Sprintf(Safe(v))", func() { redact.Sprintf(f, append(append([]interface{}{}, stars...), redact.Safe(x))...) }},
		{"Sprintf(Unsafe(v))", func() { redact.Sprintf(f, append(append([]interface{}{}, stars...), redact.Unsafe(x))...) }},
		{"JoinTo", func() { var b redact.StringBuilder; redact.JoinTo(&b, ",", []interface{}{x, x}) }},
		{"Sprintfn→Print", func() { redact.Sprintfn(func(p redact.SafePrinter) { p.SafeString("pre"); p.Print(x) }) }},
	}
	for _, e := range eps {
		if panV && (e.name == "JoinTo" || e.name == "Sprintfn→Print") {
			continue // these print with %v, under which fmt panics too
		}
		if pv, pan := recoverTo(e.run); pan {
			return fmt.Sprintf("%s(%q, %s) panics (%v) although fmt prints the value without panicking", e.name, f, v.Name, pv)
		}
	}
	return ""
}

// --- JoinTo -----------------------------------------------------------------

type joinVal struct {
	Name  string
	V     interface{}
	Slice bool
	Elems []interface{}
}

var joinVals = []joinVal{
	{"nil", nil, false, nil},
	{"bool", true, false, nil},
	{"int", 42, false, nil},
	{"string", "ab", false, nil},
	{"float", 1.5, false, nil},
	{"array", [2]int{1, 2}, false, nil},
	{"map", map[string]int{"k": 1}, false, nil},
	{"struct", struct{ A int }{1}, false, nil},
	{"ptr-to-slice", &[]int{1, 2}, false, nil},
	{"chan", (chan int)(nil), false, nil},
	{"func", (func())(nil), false, nil},
	{"error", errors.New("e"), false, nil},
	{"redactable", redact.RedactableString(mStart + "r" + mEnd), false, nil},
	{"nil []string", []string(nil), true, nil},
	{"empty []int", []int{}, true, nil},
	{"[]int{1}", []int{1}, true, []interface{}{1}},
	{"[]int{1,2}", []int{1, 2}, true, []interface{}{1, 2}},
	{"[]string", []string{"a" + mStart, "\nb"}, true, []interface{}{"a" + mStart, "\nb"}},
	{"[]RedactableString", []redact.RedactableString{mStart + "x" + mEnd, "safe"}, true, []interface{}{redact.RedactableString(mStart + "x" + mEnd), redact.RedactableString("safe")}},
	{"[]interface{}", []interface{}{nil, 1, "s"}, true, []interface{}{nil, 1, "s"}},
	{"[]byte", []byte("hi"), true, []interface{}{byte('h'), byte('i')}},
}
var joinDelims = []redact.RedactableString{"", ", ", redact.RedactableString(mStart + "d" + mEnd)}

func c11Join(vi, wi, di int) string {
	jv := joinVals[vi]
	delim := joinDelims[di]
	run := func(f func(w redact.SafeWriter)) (out []byte, pv interface{}, pan bool) {
		pv, pan = recoverTo(func() {
			switch wi {
			case 0:
				var b redact.StringBuilder
				b.SafeString("pre:")
				f(&b)
				out = []byte(b.RedactableString())
			case 1:
				out = []byte(redact.Sprintfn(func(p redact.SafePrinter) { p.SafeString("pre:"); f(p) }))
			case 2:
				out = []byte(redact.Sprintf("%v", scriptedFn(func(p redact.SafePrinter) { p.SafeString("pre:"); f(p) })))
			}
		})
		return
	}
	got, pv, pan := run(func(w redact.SafeWriter) { redact.JoinTo(w, delim, jv.V) })
	if pan {
		return fmt.Sprintf("JoinTo(w%d, %q, %s) panics: %v", wi, delim, jv.Name, pv)
	}
	if d := wfChecks(got); d != "" {
		return fmt.Sprintf("JoinTo(w%d, %q, %s) = %q: %s", wi, delim, jv.Name, got, d)
	}
	want, _, _ := run(func(w redact.SafeWriter) {
		if !jv.Slice {
			w.Print(jv.V)
			return
		}
		for i, e := range jv.Elems {
			if i > 0 {
				w.Print(delim)
			}
			w.Print(e)
		}
	})
	if !bytes.Equal(Norm(got), Norm(want)) {
		return fmt.Sprintf("JoinTo(w%d, %q, %s) = %q, want %q (a non-slice prints once, like Print)", wi, delim, jv.Name, got, want)
	}
	return ""
}

type scriptedFn func(p redact.SafePrinter)

func (f scriptedFn) SafeFormat(p redact.SafePrinter, _ rune) { f(p) }

// --- panicking user methods ---------------------------------------------------

type panicCase struct {
	Ops     []int `json:"ops"`      // indexes into panicAlphabet
	At      int   `json:"panic_at"` // position of the panic in the body
	Payload int   `json:"payload"`
	Method  int   `json:"method"` // 0 SafeFormat 1 Format 2 String 3 Error 4 GoString 5 SafeMessage
	Nest    int   `json:"nest"`   // 0 top level, 1 inside a slice, 2 nested through SafePrinter.Print
	Verb    int   `json:"verb"`
}

type panicPayload struct {
	Name   string
	V      func() interface{}
	Text   string // what fmt prints for it with %v
	Public bool
}

var nilPtr *struct{ X int }

var panicPayloads = []panicPayload{
	{"string with marker", func() interface{} { return "boom" + mStart + "x" }, "boom" + mStart + "x", false},
	{"error", func() interface{} { return errors.New("err" + mEnd + "\nz") }, "err" + mEnd + "\nz", false},
	{"int", func() interface{} { return 42 }, "42", false},
	{"Safe(x)", func() interface{} { return redact.Safe("pub") }, "pub", true},
	{"runtime error", nil, "runtime error: invalid memory address or nil pointer dereference", false},
	{"Stringer", func() interface{} { return namedStr("ns") }, "ns", false},
}

func doPanic(pl int) {
	if panicPayloads[pl].V == nil {
		_ = nilPtr.X
	}
	panic(panicPayloads[pl].V())
}

var panicAlphabet = []Op{mkOp(kSafeString, "S"), mkOp(kUnsafeString, "U"+mEnd), mkOp(kWrite, "w\n"), mkPrint("p", redact.Safe(1)), mkOp(kSafeString, mStart), mkRuneOp(kUnsafeRune, 'é')}

type panScript struct {
	ops []*Op
	at  int
	pl  int
}

func (s panScript) run(p redact.SafePrinter) {
	for i := 0; ; i++ {
		if i == s.at {
			doPanic(s.pl)
		}
		if i >= len(s.ops) {
			return
		}
		applySW(p, s.ops[i])
	}
}

type panSafeFormat struct{ panScript }

func (s panSafeFormat) SafeFormat(p redact.SafePrinter, _ rune) { s.run(p) }

type panFormat struct{ panScript }

func (s panFormat) Format(st fmt.State, _ rune) { s.run(st.(redact.SafePrinter)) }

type panString struct{ pl int }

func (s panString) String() string { doPanic(s.pl); return "" }

type panError struct{ pl int }

func (s panError) Error() string { doPanic(s.pl); return "" }

type panGoString struct{ pl int }

func (s panGoString) GoString() string { doPanic(s.pl); return "" }

type panSafeMessage struct{ pl int }

func (s panSafeMessage) SafeMessage() string { doPanic(s.pl); return "" }

var panMethodNames = []string{"SafeFormat", "Format", "String", "Error", "GoString", "SafeMessager"}
var panVerbs = []string{"%v", "%s", "%+v", "%#v", "%x", "%d", "%10v"}

func c11Panic(cs panicCase) string {
	ops := make([]*Op, len(cs.Ops))
	for i, k := range cs.Ops {
		ops[i] = &panicAlphabet[k]
	}
	ps := panScript{ops, cs.At, cs.Payload}
	var val interface{}
	switch cs.Method {
	case 0:
		val = panSafeFormat{ps}
	case 1:
		val = panFormat{ps}
	case 2:
		val = panString{cs.Payload}
	case 3:
		val = panError{cs.Payload}
	case 4:
		val = panGoString{cs.Payload}
	case 5:
		val = panSafeMessage{cs.Payload}
	}
	verb := panVerbs[cs.Verb]
	vr, _ := utf8.DecodeLastRuneInString(verb)
	pl := panicPayloads[cs.Payload]
	var out redact.RedactableString
	var pre, post string
	pv, pan := recoverTo(func() {
		switch cs.Nest {
		case 0:
			pre, post = "pre ", " post"
			out = redact.Sprintf("pre "+verb+" post", val)
		case 1:
			pre, post = "pre [", "] post"
			out = redact.Sprintf("pre "+verb+" post", []interface{}{val})
		case 2:
			pre, post = "pre A", "B post"
			out = redact.Sprintf("pre %v post", scriptedFn(func(p redact.SafePrinter) {
				p.SafeString("A")
				p.Printf(verb, val)
				p.SafeString("B")
			}))
		}
	})
	desc := fmt.Sprintf("%s method panicking with %s at op %d of %v, verb %s, nesting %d", panMethodNames[cs.Method], pl.Name, cs.At, opNames(ops), verb, cs.Nest)
	if pan {
		return fmt.Sprintf("%s: panic propagated: %v", desc, pv)
	}
	o := []byte(out)
	if d := wfChecks(o); d != "" {
		return fmt.Sprintf("%s -> %q: %s", desc, out, d)
	}
	// which method does the printer actually call for this verb?
	called := true
	switch cs.Method {
	case 2, 3:
		called = vr == 'v' && verb != "%#v" || vr == 's' || vr == 'x'
	case 4:
		called = verb == "%#v"
	case 5:
		called = vr == 'v' || vr == 's' || vr == 'x' // the safe message is a string: only string verbs use it
	}
	if cs.Nest == 1 && verb == "%#v" {
		pre, post = "pre []interface {}{", "} post"
	}
	if !called {
		return ""
	}
	// expected text, stripped: pre + esc(partial writes) + %!verb(PANIC=<Method> method: <payload>) + post
	es, ee, _ := expect(ops[:min(cs.At, len(ops))])
	if cs.Method >= 2 {
		es, ee = nil, nil
	}
	if cs.Method <= 1 && cs.At > len(ops) {
		return "" // body completes without panicking
	}
	rep := "%!" + string(vr) + "(PANIC=" + panMethodNames[cs.Method] + " method: "
	wantS := pre + string(es) + rep + string(Esc([]byte(pl.Text))) + ")" + post
	if got := string(Strip(o)); got != wantS {
		return fmt.Sprintf("%s -> %q: stripped %q, want %q", desc, out, got, wantS)
	}
	payOut := string(LFs([]byte(pl.Text)))
	if pl.Public {
		payOut = pl.Text
	}
	wantE := pre + string(ee) + rep + payOut + ")" + post
	if got := string(EnvDel(o)); got != wantE {
		return fmt.Sprintf("%s -> %q: outside envelopes %q, want %q (payload must be unsafe, surrounding text intact)", desc, out, got, wantE)
	}
	return ""
}

type okStr struct{}

func (okStr) String() string { return "OK" }

type c11Trio struct {
	A interface{}
	M interface{}
	B interface{}
	C float64
}

// c11AfterPanic: an operand in which one element's method panics must print, around the
// report, exactly what it prints when that element is well-behaved.
var c11RedCtx = []struct {
	Name string
	Run  func(r interface{})
}{
	{"Sprint(r)", func(r interface{}) { redact.Sprint(r) }},
	{"Sprint(r, \"ab\")", func(r interface{}) { redact.Sprint(r, "ab") }},
	{"Sprint(r, \"\")", func(r interface{}) { redact.Sprint(r, "") }},
	{"Sprintf(%s%d rest, r, 7)", func(r interface{}) { redact.Sprintf("%s%d rest", r, 7) }},
	{"Sprintf(%v%v, r, Safe(s))", func(r interface{}) { redact.Sprintf("%v%v", r, redact.Safe("s")) }},
	{"Sprintf(%d|%v, 1, r)", func(r interface{}) { redact.Sprintf("%d|%v", 1, r) }},
	{"Sprintf(%v, []interface{}{r, \"x\", r})", func(r interface{}) { redact.Sprintf("%v", []interface{}{r, "x", r}) }},
	{"Sprintf(%v %v, r, panicking Stringer)", func(r interface{}) { redact.Sprintf("%v %v", r, panStrT{"boom"}) }},
	{"Sprintf(%v, Unsafe(r)) / Safe(r)", func(r interface{}) { redact.Sprintf("%v|%v", redact.Unsafe(r), redact.Safe(r)) }},
	{"StringBuilder: Print(r), UnsafeRune, SafeString, RedactableString", func(r interface{}) {
		var b redact.StringBuilder
		b.Print(r)
		b.UnsafeRune('z')
		b.SafeString("s")
		_ = b.RedactableString()
	}},
	{"StringBuilder: UnsafeString, Print(r), UnsafeByte, Len, Print(r), String", func(r interface{}) {
		var b redact.StringBuilder
		b.UnsafeString("u")
		b.Print(r)
		b.UnsafeByte('b')
		_ = b.Len()
		b.Print(r)
		_ = b.String()
	}},
	{"ManualBuffer: raw write of r, unsafe WriteByte, finalize", func(r interface{}) {
		var b buffer.Buffer
		b.SetMode(buffer.SafeRaw)
		switch x := r.(type) {
		case redact.RedactableString:
			b.WriteString(string(x))
		case redact.RedactableBytes:
			b.Write(x)
		}
		b.SetMode(buffer.UnsafeEscaped)
		b.WriteByte('q')
		b.SetMode(buffer.SafeEscaped)
		_ = b.TakeRedactableString()
	}},
	{"Join/JoinTo with r as element and as delimiter", func(r interface{}) {
		if s, ok := r.(redact.RedactableString); ok {
			redact.Join(s, []redact.RedactableString{s, "x", s})
			var b redact.StringBuilder
			redact.JoinTo(&b, s, []interface{}{"u", s, 1})
		}
	}},
	{"r.Redact(), r.StripMarkers(), HelperForErrorf(%w %v, err, r)", func(r interface{}) {
		switch x := r.(type) {
		case redact.RedactableString:
			x.Redact()
			x.StripMarkers()
		case redact.RedactableBytes:
			x.Redact()
			x.StripMarkers()
		}
		redact.HelperForErrorf("%w %v", errT{"e"}, r)
	}},
}

type c11Probe struct {
	name string
	run  func() string
}

func c11Probes() []c11Probe {
	var probes []c11Probe
	for m := 0; m < 6; m++ {
		for _, verb := range panVerbs {
			m, verb := m, verb
			probes = append(probes, c11Probe{fmt.Sprintf("Sprintf(%q, value whose %s method panics)", verb, panMethodNames[m]), func() string {
				return string(redact.Sprintf("a "+verb+" b", c11Panicker(m)))
			}})
		}
	}
	probes = append(probes, c11Probe{"Sprint(plain operands)", func() string { return string(redact.Sprint("x", 1, redact.Safe("s"))) }})
	return probes
}

func c11Panicker(method int) interface{} {
	switch method {
	case 0:
		return panSafeFormat{panScript{nil, 0, 0}}
	case 1:
		return panFormat{panScript{nil, 0, 0}}
	case 2:
		return panString{0}
	case 3:
		return panError{0}
	case 4:
		return panGoString{0}
	}
	return panSafeMessage{0}
}

// c11Propagators: calls from which a panic reaches the caller (a method panics with a value whose own printing
// panics), through every entry point that owns a printer.
var c11Propagators = []struct {
	Name string
	Run  func()
}{
	{"Sprintf(%v, Stringer panicking with a value whose String panics)", func() { redact.Sprintf("%v", panStrT{panPayT{"x"}}) }},
	{"Sprint(error panicking with such a value)", func() { redact.Sprint(panErrT{panPayT{"x"}}) }},
	{"Sprintf(%v, Formatter panicking with such a value)", func() { redact.Sprintf("%v", panFmtT{panPayT{"x"}}) }},
	{"Sprintf(%#v, GoStringer panicking with such a value)", func() { redact.Sprintf("%#v", panGoT{panPayT{"x"}}) }},
	{"Fprint to a writer, same", func() { redact.Fprint(&tstWriter{}, panStrT{panPayT{"x"}}) }},
	{"HelperForErrorf(%w, error panicking with such a value)", func() { redact.HelperForErrorf("%w", panErrT{panPayT{"x"}}) }},
	{"Sprintfn whose function panics", func() { redact.Sprintfn(func(p redact.SafePrinter) { p.SafeString("a"); panic("fn") }) }},
	{"Sprintfn → Print(Stringer panicking with such a value)", func() {
		redact.Sprintfn(func(p redact.SafePrinter) { p.Print(panStrT{panPayT{"x"}}) })
	}},
	{"Sprint(Safe(slice holding such a Stringer))", func() { redact.Sprint(redact.Safe([]interface{}{1, panStrT{panPayT{"x"}}})) }},
	{"StringBuilder.Printf, same", func() { var b redact.StringBuilder; b.Printf("%v", panStrT{panPayT{"x"}}) }},
}

func c11AfterPanic(verb string, method, shape int) string {
	var bad interface{}
	switch method {
	case 0:
		bad = panSafeFormat{panScript{nil, 0, 0}}
	case 1:
		bad = panFormat{panScript{nil, 0, 0}}
	case 2:
		bad = panString{0}
	case 3:
		bad = panError{0}
	case 4:
		bad = panGoString{0}
	case 5:
		bad = panSafeMessage{0}
	}
	mk := func(mid interface{}) interface{} {
		switch shape {
		case 0:
			return []interface{}{"hello", mid, "world", 3.14159, 0}
		case 1:
			return c11Trio{"hello", mid, "world", 3.14159}
		default:
			return map[string]interface{}{"a": "hello", "b": mid, "c": "world", "d": 3.14159}
		}
	}
	var withBad, withOK, okAlone redact.RedactableString
	if pv, pan := recoverTo(func() {
		withBad = redact.Sprintf(verb, mk(bad))
		withOK = redact.Sprintf(verb, mk(okStr{}))
		okAlone = redact.Sprintf(verb, okStr{})
	}); pan {
		return fmt.Sprintf("Sprintf(%q, container with a panicking %s method) panics: %v", verb, panMethodNames[method], pv)
	}
	if !strings.Contains(string(withBad), "(PANIC=") {
		return "" // the method is not called under this verb
	}
	a, b := string(withBad), string(withOK)
	p := 0
	for p < len(a) && p < len(b) && a[p] == b[p] {
		p++
	}
	sfx := 0
	for sfx < len(a)-p && sfx < len(b)-p && a[len(a)-1-sfx] == b[len(b)-1-sfx] {
		sfx++
	}
	midOK := b[p : len(b)-sfx]
	// the well-behaved element renders as okAlone (inside the container %#v prints its Go syntax)
	want := string(okAlone)
	if shape == 1 && strings.Contains(verb, "#") {
		return ""
	}
	if !strings.Contains(want, midOK) {
		return fmt.Sprintf("Sprintf(%q): with a panicking %s method the operand prints %q, with a well-behaved element %q: they differ beyond the element itself (%q vs the element's own rendering %q): text before/after the panic report is not intact", verb, panMethodNames[method], a, b, midOK, want)
	}
	return ""
}

func checkC11(c *Ctx) {
	npSection(c, "C11", 2)
	// (a) runes
	var runes []rune
	if c.Quick() {
		for r := rune(-2); r < 0x3000; r++ {
			runes = append(runes, r)
		}
		for r := rune(0xd7f0); r <= 0xe010; r++ {
			runes = append(runes, r)
		}
		for _, m := range []rune{0xfffd, 0xffff, 0x10000, 0x10ffff, 0x110000} {
			for r := m - 16; r <= m+16; r++ {
				runes = append(runes, r)
			}
		}
		runes = append(runes, -1<<31, 1<<31-1, -100000)
	} else {
		for r := rune(-2); r <= 0x110001; r++ {
			runes = append(runes, r)
		}
		runes = append(runes, -1<<31, 1<<31-1, -100000)
	}
	nI, nP := len(c11Impls), len(preOps)
	c.Section("C11/runes", map[string]interface{}{"runes": len(runes), "domain": "quick: [-2,0x3000) + all surrogates + boundaries; thorough: every rune in [-2,0x110001]", "methods": "SafeRune, UnsafeRune, WriteRune", "implementations": nI, "buffer_states": preNames}, len(runes), func(i int, w *Worker) {
		r := runes[i]
		for k := 0; k < 3; k++ {
			for ii, impl := range c11Impls {
				for pre := 0; pre < nP; pre++ {
					w.Eval()
					if d := c11Rune(r, k, impl, pre); d != "" {
						cl := "rune"
						if !utf8.ValidRune(r) {
							cl = "D1-invalid-rune"
						}
						w.Fail(cl, map[string]int{"R": int(r), "Kind": k, "Impl": impl, "Pre": pre}, d)
					}
					_ = ii
				}
			}
		}
		var b redact.StringBuilder
		recoverTo(func() { b.UnsafeRune(r); w.SeenS(string(b.RedactableString())) })
		if i%70001 == 5 {
			w.Sample(map[string]interface{}{"rune": fmt.Sprintf("%#x", r), "UnsafeRune": q(string(b.RedactableString()))})
		}
	})
	c.Section("C11/bytes", map[string]interface{}{"bytes": 256, "methods": "SafeByte, UnsafeByte, WriteByte", "implementations": nI, "buffer_states": preNames}, 256, func(i int, w *Worker) {
		for k := 0; k < 3; k++ {
			for _, impl := range c11Impls {
				for pre := 0; pre < nP; pre++ {
					w.Eval()
					if d := c11Byte(byte(i), k, impl, pre); d != "" {
						w.Fail("byte", map[string]int{"B": i, "Kind": k, "Impl": impl, "Pre": pre}, d)
					}
				}
			}
		}
		var b buffer.Buffer
		b.WriteByte(byte(i))
		w.SeenS(string(b.RedactableString()))
	})
	// (c) format strings
	k := 3
	if !c.Quick() {
		k = 4
	}
	en := NewStrEnum(fmtTokens, k)
	c.Section("C11/formats", map[string]interface{}{"tokens": fmtTokens, "max_tokens": k, "arg_lists": len(c11ArgLists)}, en.Total, func(i int, w *Worker) {
		f := string(en.Get(i, nil))
		for ai := range c11ArgLists {
			w.Eval()
			if d := c11Format(f, ai); d != "" {
				w.Fail("format", map[string]interface{}{"F": []byte(f), "A": ai, "quoted": q(f)}, d)
			}
		}
		recoverTo(func() { w.SeenS(string(redact.Sprintf(f, c11ArgLists[1]...))) })
		if i%5003 == 11 {
			w.Sample(map[string]interface{}{"format": q(f), "out": q(string(redact.Sprintf(f, c11ArgLists[1]...)))})
		}
	})
	nfs := numberFormats()
	c.Section("C11/number-formats", map[string]interface{}{"formats": len(nfs), "arg_lists": len(c11ArgLists), "what": "argument index / width / precision / indexed star with 0, 00, signs, blanks, empty and limit neighbours"}, len(nfs), func(i int, w *Worker) {
		for ai := range c11ArgLists {
			w.Eval()
			if d := c11Format(nfs[i], ai); d != "" {
				w.Fail("format", map[string]interface{}{"F": []byte(nfs[i]), "A": ai, "quoted": q(nfs[i])}, d)
			}
		}
		w.SeenS(nfs[i])
	})
	replayers["C11/number-formats"] = replayers["C11/formats"]
	c.Section("C11/formats-2byte", map[string]interface{}{"formats": "all 1- and 2-byte strings, and '%'+ all 2-byte strings"}, 65536, func(i int, w *Worker) {
		b0, b1 := byte(i>>8), byte(i)
		fs := []string{string([]byte{b0, b1}), "%" + string([]byte{b0, b1})}
		if b0 == 0 {
			fs = append(fs, string([]byte{b1}))
		}
		for _, f := range fs {
			for _, ai := range []int{0, 1, 4} {
				w.Eval()
				if d := c11Format(f, ai); d != "" {
					w.Fail("format", map[string]interface{}{"F": []byte(f), "A": ai, "quoted": q(f)}, d)
				}
			}
			recoverTo(func() { w.SeenS(string(redact.Sprintf(f, c11ArgLists[1]...))) })
		}
	})
	replayers["C11/formats-2byte"] = replayers["C11/formats"]
	// (c') every value of the universe under every quick directive: a call may panic only if fmt panics too
	u := universe()
	dsp := quickDirectives()
	c.Section("C11/universe", map[string]interface{}{"directives": dsp.Size(), "values": len(u), "entry_points": "Sprintf, StringBuilder.Printf, Sprint(Safe(v)), Sprint(Unsafe(v)), JoinTo([]interface{}{v})"}, dsp.Size(), func(i int, w *Worker) {
		d := dsp.Get(i)
		f, stars := d.Format()
		for vi := range u {
			w.Eval()
			if dt := c11Universe(f, stars, &u[vi]); dt != "" {
				w.Fail("universe:"+u[vi].Name, map[string]interface{}{"D": d, "V": vi}, dt)
			}
		}
		w.Seen(uint64(i))
	})
	// (c'') the whole interesting domain of star (width/precision) operands: accepted, never a panic
	so := starOperands()
	c.Section("C11/star-operands", map[string]interface{}{"operands": len(so), "formats": len(starFormats)}, len(so)*len(so), func(i int, w *Worker) {
		a, b := so[i/len(so)], so[i%len(so)]
		for _, f := range starFormats {
			args := []interface{}{a, b, 5, "tail"}
			if strings.Count(f, "*") == 1 {
				args = []interface{}{a, 5, "tail"}
			}
			if strings.Contains(f, "070") || strings.Contains(f, "0100") {
				args = append(args, 7)
			}
			w.Eval()
			var out redact.RedactableString
			if pv, pan := recoverTo(func() {
				out = redact.Sprintf(f, args...)
				var sb redact.StringBuilder
				sb.SafeString("kept ")
				sb.Printf(f, args...)
				if !strings.HasPrefix(string(sb.RedactableString()), "kept ") {
					panic("earlier output lost: " + string(sb.RedactableString()))
				}
			}); pan {
				w.Fail("star-operands", map[string]interface{}{"F": f, "A": fmt.Sprintf("%T(%v)", a, a), "B": fmt.Sprintf("%T(%v)", b, b)}, fmt.Sprintf("Sprintf(%q, %T(%v), %T(%v), ...) panics: %v", f, a, a, b, b, pv))
			} else if !strings.Contains(string(Strip([]byte(out))), "tail") {
				w.Fail("star-operands", map[string]interface{}{"F": f, "A": fmt.Sprintf("%T(%v)", a, a), "B": fmt.Sprintf("%T(%v)", b, b)}, fmt.Sprintf("Sprintf(%q, %T(%v), %T(%v), ...) = %q loses the rest of the line", f, a, a, b, b, out))
			}
		}
		w.Seen(uint64(i))
	})
	// (d) JoinTo
	c.Section("C11/joinTo", map[string]interface{}{"operands": len(joinVals), "writers": "StringBuilder, Sprintfn printer, SafeFormat printer", "delimiters": len(joinDelims)}, len(joinVals)*3*len(joinDelims), func(i int, w *Worker) {
		di := i % len(joinDelims)
		wi := (i / len(joinDelims)) % 3
		vi := i / len(joinDelims) / 3
		w.Eval()
		if d := c11Join(vi, wi, di); d != "" {
			cl := "joinTo"
			if !joinVals[vi].Slice {
				cl = "D2-joinTo-non-slice"
			}
			w.Fail(cl, map[string]int{"V": vi, "W": wi, "D": di}, d)
		}
		w.Seen(uint64(i))
	})
	// (f) panicking user methods
	var cases []panicCase
	maxBody := 2
	if !c.Quick() {
		maxBody = 3
	}
	se := NewStrEnum(make([]string, len(panicAlphabet)), maxBody)
	for si := 0; si < se.Total; si++ {
		body := se.Tokens(si)
		for at := 0; at <= len(body); at++ {
			for pl := range panicPayloads {
				for m := 0; m <= 1; m++ {
					for nest := 0; nest <= 2; nest++ {
						for v := range panVerbs {
							if c.Quick() && v > 2 && len(body) > 1 {
								continue
							}
							cases = append(cases, panicCase{Ops: body, At: at, Payload: pl, Method: m, Nest: nest, Verb: v})
						}
					}
				}
			}
		}
	}
	for pl := range panicPayloads {
		for m := 2; m <= 5; m++ {
			for nest := 0; nest <= 2; nest++ {
				for v := range panVerbs {
					cases = append(cases, panicCase{At: 0, Payload: pl, Method: m, Nest: nest, Verb: v})
				}
			}
		}
	}
	c.Section("C11/panics", map[string]interface{}{"body_ops": len(panicAlphabet), "max_body": maxBody, "payloads": len(panicPayloads), "methods": panMethodNames, "nesting": "top level, inside []interface{}, through SafePrinter.Printf", "verbs": panVerbs}, len(cases), func(i int, w *Worker) {
		w.Eval()
		if d := c11Panic(cases[i]); d != "" {
			w.Fail("method-panic", cases[i], d)
		}
		recoverTo(func() {
			w.SeenS(fmt.Sprint(cases[i].Method, cases[i].Payload, cases[i].At, cases[i].Nest, cases[i].Verb, len(cases[i].Ops)))
		})
	})
	// (g) text AFTER a caught panic inside a container keeps the directive's width/precision/flags
	afterVerbs := []string{"%v", "%.2v", "%8v", "%-6.1v", "%+v", "%#v", "%08.3v", "%x", "% x", "%q", "%6.2s", "%.0v"}
	c.Section("C11/after-panic", map[string]interface{}{"verbs": afterVerbs, "methods": panMethodNames, "shapes": "[]interface{}{a, PANICKER, b, c}, struct, map value; the rest of the operand must print exactly as with a well-behaved element in the panicker's place"}, len(afterVerbs)*6*3, func(i int, w *Worker) {
		vi, m, sh := i%len(afterVerbs), (i/len(afterVerbs))%6, i/len(afterVerbs)/6
		w.Eval()
		if d := c11AfterPanic(afterVerbs[vi], m, sh); d != "" {
			w.Fail("after-panic", map[string]interface{}{"Verb": afterVerbs[vi], "Method": m, "Shape": sh}, d)
		}
		w.Seen(uint64(i))
	})
	// (i) operands that CLAIM to be redactable but are not well-formed (a lone end marker, an unclosed envelope,
	// truncated markers): the library copies them verbatim and must survive whatever that leaves in its buffer
	rtoks := []string{"a", mStart, mEnd, "\n", "\xe2", "\xe2\x80", mRed}
	rmax := 3
	if !c.Quick() {
		rmax = 4
	}
	re := NewStrEnum(rtoks, rmax)
	c.Section("C11/redactable-operands", map[string]interface{}{"tokens": rtoks, "max_tokens": rmax, "forms": "RedactableString, RedactableBytes", "contexts": len(c11RedCtx)}, re.Total, func(i int, w *Worker) {
		r := string(re.Get(i, nil))
		for ci := range c11RedCtx {
			for _, asBytes := range []bool{false, true} {
				w.Eval()
				var val interface{} = redact.RedactableString(r)
				if asBytes {
					val = redact.RedactableBytes(r)
				}
				if pv, pan := recoverTo(func() { c11RedCtx[ci].Run(val) }); pan {
					w.Fail("redactable-operand", map[string]interface{}{"R": []byte(r), "Bytes": asBytes, "Ctx": ci}, fmt.Sprintf("%s with r = %T(%q) panics: %v", c11RedCtx[ci].Name, val, r, pv))
				}
			}
		}
		w.SeenS(r)
	})
	// (h) AFTER a call that let a panic propagate (the one case the property allows: a panic whose own report
	// panics), later calls contain ordinary method panics as before. One worker: the later call must be able to
	// receive the printer the earlier call used.
	c.Section("C11/after-propagated-panic", map[string]interface{}{"propagating_calls": len(c11Propagators), "methods": panMethodNames, "verbs": panVerbs, "workers": 1}, 1, func(_ int, w *Worker) {
		probes := c11Probes()
		refs := make([]string, len(probes))
		for i, p := range probes {
			if pv, pan := recoverTo(func() { refs[i] = p.run() }); pan {
				w.Fail("after-propagated-panic", nil, fmt.Sprintf("%s panics in a fresh process: %v", p.name, pv))
				return
			}
		}
		for pi, prop := range c11Propagators {
			for i, p := range probes {
				w.Eval()
				_, panned := recoverTo(prop.Run)
				var got string
				pv, pan := recoverTo(func() { got = p.run() })
				if pan {
					w.Fail("after-propagated-panic", map[string]int{"Propagator": pi, "Probe": i}, fmt.Sprintf("after %s (panic propagated to the caller: %v), the call %s lets the panic escape: %v", prop.Name, panned, p.name, pv))
				} else if got != refs[i] {
					w.Fail("after-propagated-panic", map[string]int{"Propagator": pi, "Probe": i}, fmt.Sprintf("after %s (panic propagated to the caller: %v), the call %s returns %q, before it returned %q", prop.Name, panned, p.name, got, refs[i]))
				}
			}
		}
		w.Seen(1)
		w.Seen(2)
	})
	c.Assume("outside the claim, as documented: Grow(<0), memory exhaustion, a nil io.Writer, a nil function passed to Sprintfn, a nil *StringBuilder receiver")
}

package main

import (
	"encoding/json"
	"errors"
	"fmt"
	"os"
	"os/exec"
	"regexp"
	"sort"
	"strings"
	"sync"
	"time"

	redact "github.com/cockroachdb/redact"
	"github.com/cockroachdb/redact/internal/buffer"
	"github.com/cockroachdb/redact/internal/rfmt"
	"github.com/cockroachdb/redact/internal/vsync"
)

// ---------------------------------------------------------------------------
// Call alphabet: every result is deterministic across processes (no addresses)
// ---------------------------------------------------------------------------

type c12Call struct {
	Name string
	Run  func() string
}

type failWriter struct{}

func (failWriter) Write(p []byte) (int, error) { return len(p) / 2, errWriter }

// reentrantWriter formats with the library before it consumes its input.
type reentrantWriter struct{ got []byte }

func (w *reentrantWriter) Write(p []byte) (int, error) {
	_ = redact.Sprintf("stamp %d %s", len(p), "ZZZZZZZZZZZZZZZZZZZZZZZZZZZZZZZZ")
	w.got = append(w.got, p...)
	return len(p), nil
}

// yieldWriter yields to the scheduler before it consumes its input.
type yieldWriter struct{ got []byte }

func (w *yieldWriter) Write(p []byte) (int, error) {
	c12Sched.Point("writer")
	w.got = append(w.got, p...)
	return len(p), nil
}

type reentrantStr struct{ s string }

func (r reentrantStr) String() string { return string(redact.Sprintf("inner[%s|%d]", r.s, 5)) }

type stateFmt struct{}

func (stateFmt) Format(s fmt.State, verb rune) {
	fmt.Fprintf(s, "%c", verb)
	for _, c := range flagChars {
		if s.Flag(int(c)) {
			fmt.Fprintf(s, "%c", c)
		}
	}
	if w, ok := s.Width(); ok {
		fmt.Fprintf(s, "w%d", w)
	}
	if p, ok := s.Precision(); ok {
		fmt.Fprintf(s, "p%d", p)
	}
}

type yieldStr struct{ s string }

func (y yieldStr) String() string { c12Sched.Point("user method"); return y.s }

var (
	c12e1  = errT{"e1" + mStart}
	c12e2  = errors.New("e2")
	c12big = strings.Repeat("x", 70000)
)

func guard(f func() string) string {
	var r string
	if pv, pan := recoverTo(func() { r = f() }); pan {
		return fmt.Sprintf("PANIC(%v)", pv)
	}
	return r
}

func hef(f string, a ...interface{}) string {
	s, e := redact.HelperForErrorf(f, a...)
	return fmt.Sprintf("%s|err=%v", s, e)
}

var c12Calls = []c12Call{
	{"Sprintf plain", func() string { return string(redact.Sprintf("%d %s", 1, "x"+mEnd)) }},
	{"flags/width/precision", func() string { return string(redact.Sprintf("%*d|%-5s|%.2f|%+d|%#x", 6, 42, "ab", 3.14159, 7, 255)) }},
	{"%+v/%#v", func() string { return string(redact.Sprintf("%+v|%#v", structT{1, "b", nil}, []int{1})) }},
	{"explicit indexes", func() string { return string(redact.Sprintf("%[2]d %[1]d", 1, 2)) }},
	{"bad index", func() string { return string(redact.Sprintf("%[5]d|%d", 1)) }},
	{"bad verb, NOVERB", func() string { return string(redact.Sprintf("%z %!", 1)) }},
	{"EXTRA", func() string { return string(redact.Sprintf("%d", 1, "two")) }},
	{"%w in Sprintf", func() string { return string(redact.Sprintf("%w", c12e1)) }},
	{"HelperForErrorf %w", func() string { return hef("a %w", c12e1) }},
	{"HelperForErrorf two %w", func() string { return hef("%w %w", c12e1, c12e2) }},
	{"HelperForErrorf misused %w", func() string { return hef("%w|%w", structT{}, 1) }},
	{"HelperForErrorf no %w", func() string { return hef("%v", c12e2) }},
	{"Safe/Unsafe", func() string { return string(redact.Sprintf("%v %v", redact.Safe("s"), redact.Unsafe(safeT("u")))) }},
	{"caught panic", func() string { return string(redact.Sprintf("a %v b", panStrT{"boom"})) }},
	{"propagating double panic", func() string {
		return guard(func() string { return string(redact.Sprintf("a %v b", panStrT{panPayT{"x"}})) })
	}},
	{"double panic under Safe()", func() string {
		return guard(func() string { return string(redact.Sprintf("a %v b", redact.Safe(panStrT{panPayT{"x"}}))) })
	}},
	{"double panic under Unsafe() in nested Printf", func() string {
		return guard(func() string {
			return string(redact.Sprintf("r: %v", scriptedFn(func(p redact.SafePrinter) {
				p.SafeString("hd ")
				p.Printf("%v", redact.Unsafe(panStrT{panPayT{"x"}}))
			})))
		})
	}},
	{"triple panic through a nested Print under Safe() (propagates)", func() string {
		return guard(func() string {
			return string(redact.Sprintf("r: %v", redact.Safe(scriptedFn(func(p redact.SafePrinter) {
				p.SafeString("hd ")
				p.Print("n", panStrT{npPayDeep{"x"}})
			}))))
		})
	}},
	{"triple panic through a nested Printf (propagates)", func() string {
		return guard(func() string {
			return string(redact.Sprintf("r: %v", scriptedFn(func(p redact.SafePrinter) {
				p.UnsafeString("hd ")
				p.Printf("%v|%d", panErrT{npPayDeep{"x"}}, 7)
			})))
		})
	}},
	// directives that differ only in "precision 0" against "no precision" (and a width), forwarded with MakeFormat:
	// anything that memoises per directive must key on whether the number was given
	{"forwarded directives without precision", func() string {
		return string(redact.Sprintf("%f|%x|%-s|%+v|%5e", forwarder{3.14159}, forwarder{"hi"}, forwarder{"hi"}, forwarder{structT{1, "p", 2.5}}, forwarder{2.5}))
	}},
	{"forwarded directives with precision 0", func() string {
		return string(redact.Sprintf("%.0f|%.0x|%-.0s|%+.0v|%5.0e", forwarder{3.14159}, forwarder{"hi"}, forwarder{"hi"}, forwarder{structT{1, "p", 2.5}}, forwarder{2.5}))
	}},
	{"wrappers through fmt without precision", func() string {
		return fmt.Sprintf("%f|%x|%08v", redact.Safe(3.14159), redact.Unsafe("hi"), redact.Safe(7))
	}},
	{"wrappers through fmt with precision 0", func() string {
		return fmt.Sprintf("%.0f|%.0x|%08.0v", redact.Safe(3.14159), redact.Unsafe("hi"), redact.Safe(7))
	}},
	{"SafeFormatter panics after nested Print", func() string {
		return string(redact.Sprintf("%v", scriptedFn(func(p redact.SafePrinter) { p.Print("n", redact.Safe(1)); panic("late") })))
	}},
	{"nested printers depth 1", func() string {
		return string(redact.Sprint(scriptedFn(func(p redact.SafePrinter) { p.SafeString("a"); p.Print("u", redact.Safe(1)); p.Printf("%05d", 7) })))
	}},
	{"nested printers depth 2", func() string {
		return string(redact.Sprint(scriptedFn(func(p redact.SafePrinter) {
			p.Print(scriptedFn(func(q redact.SafePrinter) { q.Printf("%s-%v", "in", redact.Safe("ner")) }), "out")
		})))
	}},
	{"error operand", func() string { return string(redact.Sprintf("%v|%s|%q", c12e1, c12e2, wrapErrT{"o", c12e2})) }},
	{"Sprintfn", func() string {
		return string(redact.Sprintfn(func(p redact.SafePrinter) { p.SafeString("s"); p.Printf("%d%s", 3, "u"); p.UnsafeRune('é') }))
	}},
	{"Sprintfn function panics (printer leaked)", func() string {
		return guard(func() string {
			return string(redact.Sprintfn(func(p redact.SafePrinter) { p.UnsafeString("half"); panic("fn") }))
		})
	}},
	{"Fprint to failing writer", func() string {
		n, err := redact.Fprint(failWriter{}, "abc", 1)
		return fmt.Sprint(n, err)
	}},
	{"StringBuilder", func() string {
		var b redact.StringBuilder
		b.SafeString("sb:")
		b.Printf("%d|%v", 1, "u")
		b.Print(redact.Safe("p"))
		return string(b.RedactableString())
	}},
	{">64KiB output", func() string {
		s := redact.Sprintf("%s|%d", c12big, 1)
		return fmt.Sprintf("len=%d hash=%x tail=%s", len(s), hashString(string(s))&0xffff != 1<<20, s[len(s)-8:])
	}},
	{"Stringer that calls Sprintf", func() string { return string(redact.Sprintf("o[%v|%d]", reentrantStr{"r"}, 9)) }},
	{"Unsafe(formatter calling SafePrinter.Print)", func() string {
		return string(redact.Sprintf("%v", redact.Unsafe(scriptedFmt{[]*Op{opPtr(mkPrint(redact.Safe("L"), "x"))}})))
	}},
	{"Safe(formatter calling SafePrinter.Printf)", func() string {
		return string(redact.Sprintf("%v", redact.Safe(scriptedFmt{[]*Op{opPtr(mkPrintf("l %s", "x"))}})))
	}},
	{"state-reading Formatter %5.2v", func() string { return string(redact.Sprintf("%5.2v|%v|%-+x", stateFmt{}, stateFmt{}, stateFmt{})) }},
	{"state-reading Formatter plain", func() string { return string(redact.Sprintf("%v|%d", stateFmt{}, stateFmt{})) }},
	{"SafeFormatter value", func() string { return string(redact.Sprintf("to %v|%s", safeFmtT{"k", "sec"}, &safeFmtT{"p", "q"})) }},
	{"Unsafe(SafeFormatter value)", func() string { return string(redact.Sprintf("to %v", redact.Unsafe(safeFmtT{"k", "sec"}))) }},
	{"SafeMessager value", func() string { return string(redact.Sprintf("%v|%s", safeMsgT{"sec"}, []interface{}{safeMsgT{"x"}})) }},
	{"Unsafe(SafeMessager value)", func() string { return string(redact.Sprintf("%v", redact.Unsafe(safeMsgT{"sec"}))) }},
	{"SafeValue and Stringer types", func() string {
		return string(redact.Sprintf("%v %v %v", safeT("pub"), strT{"s"}, time.Duration(1500)*time.Millisecond))
	}},
	{"Unsafe(SafeValue and Stringer types)", func() string {
		return string(redact.Sprintf("%v %v", redact.Unsafe(safeT("pub")), redact.Unsafe(strT{"s"})))
	}},
	{"fast-path verbs on empty/zero operands", func() string {
		return string(redact.Sprintf("%x|%x|% x|%s|%d|%v|%q|%c", "", []byte(nil), "", "", 0, nil, "", 0))
	}},
	{"width then fast-path verbs", func() string { return string(redact.Sprintf("%12d|%x|%s|%-9.3f|%x", 1, "", "", 2.5, []byte{})) }},
	{"hex/quote", func() string { return string(redact.Sprintf("%x % x %q %c", "hi", []byte("yo"), "q", 'c')) }},
	{"Sprint spacing", func() string { return string(redact.Sprint(1, 2, "a", "b", 3.5, nil)) }},
	{"Redactable operand", func() string { return string(redact.Sprintf("%v.", redact.RedactableString("r"+mStart+"x"+mEnd))) }},
	{"Fprintf to a writer that formats before consuming", func() string {
		w := &reentrantWriter{}
		n, err := redact.Fprintf(w, "entry %s from %v", "user", redact.Safe("10.0.0.1"))
		return fmt.Sprint(string(w.got), n, err)
	}},
	{"Fprint to a yielding writer", func() string {
		w := &yieldWriter{}
		n, err := redact.Fprint(w, "abc", 1, redact.Safe("s"))
		return fmt.Sprint(string(w.got), n, err)
	}},
	{"yielding Stringer", func() string { return string(redact.Sprintf("<%v|%v>", yieldStr{"y1"}, yieldStr{"y2"})) }},
	// composite operands: maps go through the key sorter, which a change may give scratch memory of its own
	{"empty and nil maps", func() string {
		return string(redact.Sprintf("%v|%v|%#v|%v", map[string]int{}, map[int]string(nil), map[string]bool{}, []int{}))
	}},
	{"maps with several keys", func() string {
		return string(redact.Sprintf("%v|%+v|%v", map[string]int{"b": 2, "a": 1, "c": 3}, map[int]string{2: "x", 1: "y"}, map[safeT]bool{"k": true}))
	}},
	{"map holding maps", func() string {
		return guard(func() string {
			return string(redact.Sprintf("%v", map[string]interface{}{"e": map[string]int{}, "m": map[string]int{"k": 1, "j": 2}, "z": map[int]bool{}}))
		})
	}},
	{"map with yielding Stringer elements", func() string {
		return string(redact.Sprintf("%v", map[string]yieldStr{"k1": {"v1"}, "k2": {"v2"}}))
	}},
	{"element safe for two reasons (SafeValue + registered type), then unsafe operands", func() string {
		return string(redact.Sprintf("%v|%v|%v", []interface{}{dblSafeT(7), map[dblSafeT]int{1: 2}}, "secret", redact.Unsafe(5)))
	}},
	// the projections and everything else reachable from a printing call that may set itself up on first use
	{"Redact/StripMarkers/EscapeMarkers/StringBuilder.String of results", func() string {
		r := redact.Sprintf("k=%s v=%d", "sec"+mEnd, 7)
		var b redact.StringBuilder
		b.Printf("x%vy", "u\n")
		return string(r.Redact()) + "|" + r.StripMarkers() + "|" + string(redact.EscapeMarkers([]byte("a"+mStart+"b"))) + "|" + b.String() + "|" + string(redact.EscapeBytes([]byte("e\n"+mEnd)))
	}},
	{"HelperForErrorf %w whose operand double-panics (propagates)", func() string {
		return guard(func() string { return hef("a %w b", panErrT{panPayT{"x"}}) })
	}},
	// fields wider than any per-printer scratch array (a change may move such scratch memory to package scope)
	{"wide integer fields", func() string {
		return string(redact.Sprintf("%0100d|%#.80x|%70v|%-90o|%.70b|%#.66U", 123456789, 255, []int{7, 8}, 8, 5, 0x1F600))
	}},
	{"wide float, string and quote fields", func() string {
		return string(redact.Sprintf("%0120.30f|%100s|%-100q|%.90e|%110x", 3.14159, "s", "q", 1e100, "hex"))
	}},
	{"slices, arrays, structs, pointers", func() string {
		x := 5
		return string(redact.Sprintf("%v|%v|%+v|%v|%v", []string{"a", "b"}, [2]bool{true, false}, embedT{structInner{1, 2}, "z"}, &structT{A: 1}, []interface{}{&x != nil, nil, 2.5}))
	}},
}

func c12Idx(name string) int {
	for i := range c12Calls {
		if c12Calls[i].Name == name {
			return i
		}
	}
	panic("no such call: " + name)
}

// ---------------------------------------------------------------------------
// Choice recorder shared by the pool controller and the scheduler
// ---------------------------------------------------------------------------

type chooser struct {
	prefix   []int
	choices  []int
	widths   []int
	costs    [][]int
	diverged bool
	quiet    bool // warm-up: always the default, nothing recorded
}

func (c *chooser) reset(prefix []int) {
	c.prefix = prefix
	c.choices, c.widths, c.costs = c.choices[:0], c.widths[:0], c.costs[:0]
	c.diverged = false
}

func (c *chooser) choose(width int, cost func(alt int) int) int {
	if c.quiet || width <= 1 {
		return 0
	}
	pos := len(c.choices)
	ch := 0
	if pos < len(c.prefix) {
		ch = c.prefix[pos]
		if ch >= width {
			c.diverged = true // replaying a recorded prefix must not diverge
			ch = 0
		}
	}
	cs := make([]int, width)
	for a := range cs {
		cs[a] = cost(a)
	}
	c.choices = append(c.choices, ch)
	c.widths = append(c.widths, width)
	c.costs = append(c.costs, cs)
	return ch
}

// pool controller: alternatives are [most recent, 2nd, ..., New]; with an empty pool only New.
type poolCtl struct {
	cold     bool // reference runs: every Get is answered with a new printer
	ch       *chooser
	s        *sched
	recycled int
	fresh    int
}

func (p *poolCtl) Choose(n int) int {
	if p.cold {
		return n
	}
	k := p.ch.choose(n+1, func(alt int) int {
		if alt == 0 {
			return 0
		}
		return 1
	})
	if n == 0 {
		p.fresh++
		return 0
	}
	if k == n {
		p.fresh++
	} else {
		p.recycled++
	}
	return k
}
func (p *poolCtl) Point(what string) { p.s.Point(what) }

// ---------------------------------------------------------------------------
// Cooperative scheduler
// ---------------------------------------------------------------------------

type sched struct {
	ch       *chooser
	active   bool
	wake     []chan struct{}
	done     []bool
	cur      int
	finished chan struct{}
	points   int
}

var c12Sched = &sched{}

func (s *sched) enabled() []int {
	var en []int
	if !s.done[s.cur] {
		en = append(en, s.cur)
	}
	for i := range s.done {
		if i != s.cur && !s.done[i] {
			en = append(en, i)
		}
	}
	return en
}

func (s *sched) Point(what string) {
	if !s.active {
		return
	}
	s.points++
	en := s.enabled()
	if len(en) <= 1 {
		return
	}
	k := s.ch.choose(len(en), func(alt int) int {
		if alt == 0 {
			return 0
		}
		return 1 // switching away from a thread that can continue is a preemption
	})
	next := en[k]
	if next != s.cur {
		prev := s.cur
		s.cur = next
		s.wake[next] <- struct{}{}
		<-s.wake[prev]
	}
}

// runThreads runs the thread bodies under the scheduler and returns when all are done.
func (s *sched) runThreads(bodies []func()) {
	n := len(bodies)
	s.wake = make([]chan struct{}, n)
	s.done = make([]bool, n)
	s.finished = make(chan struct{})
	s.points = 0
	for i := range bodies {
		s.wake[i] = make(chan struct{})
	}
	for i := range bodies {
		i := i
		go func() {
			<-s.wake[i]
			bodies[i]()
			s.done[i] = true
			en := s.enabled()
			if len(en) == 0 {
				s.active = false
				close(s.finished)
				return
			}
			k := s.ch.choose(len(en), func(int) int { return 0 }) // a thread ended: any successor is free
			s.cur = en[k]
			s.wake[en[k]] <- struct{}{}
		}()
	}
	s.active = true
	s.cur = 0
	first := s.ch.choose(n, func(int) int { return 0 })
	s.cur = first
	s.wake[first] <- struct{}{}
	<-s.finished
}

// ---------------------------------------------------------------------------
// Harness state
// ---------------------------------------------------------------------------

var (
	c12Ch                      = &chooser{}
	c12Pool                    = &poolCtl{ch: c12Ch, s: c12Sched}
	c12Refs                    []string // references of the active configuration
	c12RefsNoHook, c12RefsHook []string
	c12Setup                   sync.Once
	c12InitViolation           string
)

func c12Init() {
	c12Setup.Do(func() {
		dblSafeRegister()
		c12Sched.ch = c12Ch
		buffer.VerifYield = func() { c12Sched.Point("write") }
		// references: every call once from a cold pool (always a new printer), no scheduler
		vsync.SetController(c12Pool)
		c12Ch.quiet = true
		c12Pool.cold = true
		for _, cl := range c12Calls {
			vsync.Clear()
			c12RefsNoHook = append(c12RefsNoHook, clone(cl.Run()))
		}
		redact.RegisterRedactErrorFn(c02Hook)
		for _, cl := range c12Calls {
			vsync.Clear()
			c12RefsHook = append(c12RefsHook, clone(cl.Run()))
		}
		redact.RegisterRedactErrorFn(nil)
		c12Refs = c12RefsNoHook
		// sanity: a second cold run gives the same reference (determinism of the alphabet)
		for i, cl := range c12Calls {
			vsync.Clear()
			if r := cl.Run(); r != c12RefsNoHook[i] && c12InitViolation == "" {
				// the whole alphabet ran in between: the result depends on earlier calls although
				// every printer was new both times (state kept outside the pool)
				c12InitViolation = fmt.Sprintf("call %q returns %q from a cold pool at process start but %q from a cold pool after the other calls of the alphabet have run once: its result depends on earlier calls through state kept outside the printer pool", cl.Name, c12RefsNoHook[i], r)
			}
		}
		c12Ch.quiet = false
		c12Pool.cold = false
	})
}

func poolKey() string {
	var ds []string
	for _, x := range vsync.Contents() {
		ds = append(ds, rfmt.VerifDump(x))
	}
	sort.Strings(ds)
	return strings.Join(ds, " || ")
}

type c12Obs struct {
	call   int
	result string
	keep   string
}

func (o c12Obs) bad() string {
	if o.keep != c12Refs[o.call] {
		return fmt.Sprintf("call %q returned %q, a fresh process returns %q", c12Calls[o.call].Name, o.keep, c12Refs[o.call])
	}
	if o.result != o.keep {
		return fmt.Sprintf("the string returned by call %q was modified afterwards: %q -> %q", c12Calls[o.call].Name, o.keep, o.result)
	}
	return ""
}

func doCall(i int) (o c12Obs) {
	defer func() {
		// a panic escaping from a call whose cold-pool reference returned normally is a result that depends on
		// something else than the arguments (calls that legitimately panic are wrapped in guard())
		if pv := recover(); pv != nil {
			r := fmt.Sprintf("PANIC escaping from the call: %v", pv)
			o = c12Obs{call: i, result: r, keep: r}
		}
	}()
	r := c12Calls[i].Run()
	return c12Obs{call: i, result: r, keep: clone(r)}
}

// ---------------------------------------------------------------------------
// (a) histories x pool answers: breadth-first over pool states
// ---------------------------------------------------------------------------

type c12Step struct {
	Call    int   `json:"call"`
	Choices []int `json:"pool_answers"`
}

type c12HistCase struct {
	Path []c12Step `json:"history"`
	Hook bool      `json:"hook"`
}

// runHistory replays a history; returns observation failure (if any), the final pool key and the
// choice record of the LAST step.
func runHistory(path []c12Step, last int, lastPrefix []int) (fail string, key string, widths []int, choices []int) {
	if c12Crumb != nil {
		full := path
		if last >= 0 {
			full = append(append([]c12Step{}, path...), c12Step{Call: last, Choices: lastPrefix})
		}
		crumb(describeHistory(full))
	}
	vsync.Clear()
	var obs []c12Obs
	for _, st := range path {
		c12Ch.reset(st.Choices)
		obs = append(obs, doCall(st.Call))
		if c12Ch.diverged {
			return "REPLAY-DIVERGED", "", nil, nil
		}
	}
	if last >= 0 {
		c12Ch.reset(lastPrefix)
		obs = append(obs, doCall(last))
		widths = append([]int(nil), c12Ch.widths...)
		choices = append([]int(nil), c12Ch.choices...)
	}
	for _, o := range obs {
		if b := o.bad(); b != "" {
			return b, "", widths, choices
		}
	}
	return "", poolKey(), widths, choices
}

type c12Stats struct {
	Executions  int64             `json:"executions"`
	States      int64             `json:"states"`
	Transitions int64             `json:"transitions"`
	Recycled    int64             `json:"gets_served_by_recycled_printer"`
	Fresh       int64             `json:"gets_served_by_new_printer"`
	Points      int64             `json:"scheduling_points"`
	Violations  []string          `json:"violations"`
	Cases       []json.RawMessage `json:"cases"`
	Exhaustive  bool              `json:"exhaustive"`
	BudgetDone  int               `json:"deviation_budget_completed"`
	Sample      string            `json:"sample"`
	Keys        []string          `json:"-"`
}

// noDedupeLevels: histories of up to noDedupeLevels+1 calls are explored without merging
// on the pool state, so that cross-call state kept OUTSIDE the pool (a package-level
// cache, a global flag) still shows; deeper levels merge on the dumped pool state.
var noDedupeLevels = 1

func historiesBFS(first []int, depth int, hook bool, deadline func() bool) c12Stats {
	var st c12Stats
	st.Exhaustive = true
	if hook {
		redact.RegisterRedactErrorFn(c02Hook)
		c12Refs = c12RefsHook
		defer func() { redact.RegisterRedactErrorFn(nil); c12Refs = c12RefsNoHook }()
	}
	seen := map[string]bool{}
	type node struct{ path []c12Step }
	frontier := []node{{}}
	vsync.Clear()
	seen[poolKey()] = true
	st.States = 1
	for d := 0; d < depth && len(frontier) > 0; d++ {
		var next []node
		for _, nd := range frontier {
			calls := seq(len(c12Calls))
			if d == 0 && first != nil {
				calls = first
			}
			for _, call := range calls {
				// DFS over the pool answers of this one call
				var stack [][]int
				stack = append(stack, nil)
				for len(stack) > 0 {
					if deadline() {
						st.Exhaustive = false
						return st
					}
					prefix := stack[len(stack)-1]
					stack = stack[:len(stack)-1]
					r0, f0 := c12Pool.recycled, c12Pool.fresh
					fail, key, widths, choices := runHistory(nd.path, call, prefix)
					st.Executions++
					st.Transitions++
					st.Recycled += int64(c12Pool.recycled - r0)
					st.Fresh += int64(c12Pool.fresh - f0)
					step := c12Step{Call: call, Choices: choices}
					full := append(append([]c12Step{}, nd.path...), step)
					if fail != "" {
						if len(st.Violations) < 5 {
							// validate: the same history must fail identically when replayed
							f2, _, _, _ := runHistory(nd.path, call, choices)
							if f2 == fail {
								st.Violations = append(st.Violations, describeHistory(full)+": "+fail)
								st.Cases = append(st.Cases, mustJSON(c12HistCase{Path: full, Hook: hook}))
							} else {
								st.Violations = append(st.Violations, "NONDETERMINISTIC-REPLAY "+describeHistory(full)+": "+fail+" / "+f2)
							}
						}
						continue
					}
					for i := len(prefix); i < len(widths); i++ {
						for alt := 1; alt < widths[i]; alt++ {
							stack = append(stack, append(append([]int{}, choices[:i]...), alt))
						}
					}
					if !seen[key] || d < noDedupeLevels {
						if !seen[key] {
							st.States++
						}
						seen[key] = true
						next = append(next, node{full})
						if st.Sample == "" && len(full) >= 2 {
							st.Sample = describeHistory(full) + " -> pool: " + key
						}
					}
				}
			}
		}
		frontier = next
	}
	return st
}

func describeHistory(path []c12Step) string {
	var p []string
	for _, s := range path {
		p = append(p, fmt.Sprintf("%s%v", c12Calls[s.Call].Name, s.Choices))
	}
	return "history [" + strings.Join(p, " ; ") + "] (pool answers per Get: 0 = most recently freed printer, last = new)"
}

// ---------------------------------------------------------------------------
// (b) schedules x pool answers under a joint deviation budget
// ---------------------------------------------------------------------------

type c12SchedCase struct {
	Threads [][]int `json:"threads"` // call indexes per thread
	Choices []int   `json:"choices"`
	Warm    []int   `json:"warmup_calls"`
}

var c12Warm = []int{18, 0} // leaves two recycled printers (one ex-nested) in the pool

func runSchedule(threads [][]int, prefix []int) (fail string, widths []int, choices []int, costs [][]int) {
	if c12Crumb != nil {
		crumb(describeSchedule(threads, prefix))
	}
	vsync.Clear()
	c12Ch.quiet = true
	for _, w := range c12Warm {
		c12Calls[w].Run()
	}
	c12Ch.quiet = false
	c12Ch.reset(prefix)
	obs := make([][]c12Obs, len(threads))
	bodies := make([]func(), len(threads))
	for t := range threads {
		t := t
		bodies[t] = func() {
			for _, cl := range threads[t] {
				obs[t] = append(obs[t], doCall(cl))
			}
		}
	}
	c12Sched.runThreads(bodies)
	widths = append([]int(nil), c12Ch.widths...)
	choices = append([]int(nil), c12Ch.choices...)
	costs = append([][]int(nil), c12Ch.costs...)
	if c12Ch.diverged {
		return "REPLAY-DIVERGED", widths, choices, costs
	}
	for t := range obs {
		for _, o := range obs[t] {
			if b := o.bad(); b != "" {
				return fmt.Sprintf("thread %d: %s", t, b), widths, choices, costs
			}
		}
	}
	return "", widths, choices, costs
}

func exploreSchedules(threads [][]int, budget int, st *c12Stats, deadline func() bool) {
	type item struct {
		prefix []int
		cost   int
	}
	stack := []item{{nil, 0}}
	for len(stack) > 0 {
		if deadline() {
			st.Exhaustive = false
			return
		}
		it := stack[len(stack)-1]
		stack = stack[:len(stack)-1]
		r0, f0 := c12Pool.recycled, c12Pool.fresh
		fail, widths, choices, costs := runSchedule(threads, it.prefix)
		st.Executions++
		st.Points += int64(c12Sched.points)
		st.Recycled += int64(c12Pool.recycled - r0)
		st.Fresh += int64(c12Pool.fresh - f0)
		if fail != "" {
			if len(st.Violations) < 5 {
				f2, _, _, _ := runSchedule(threads, choices)
				desc := describeSchedule(threads, choices)
				if f2 == fail {
					st.Violations = append(st.Violations, desc+": "+fail)
					st.Cases = append(st.Cases, mustJSON(c12SchedCase{Threads: threads, Choices: choices, Warm: c12Warm}))
				} else {
					st.Violations = append(st.Violations, "NONDETERMINISTIC-REPLAY "+desc+": "+fail+" / "+f2)
				}
			}
			continue
		}
		// cost of the executed choices before position i
		acc := it.cost
		for i := len(it.prefix); i < len(widths); i++ {
			for alt := 1; alt < widths[i]; alt++ {
				c := acc + costs[i][alt]
				if c <= budget {
					stack = append(stack, item{append(append([]int{}, choices[:i]...), alt), c})
				}
			}
			acc += costs[i][choices[i]]
		}
		if st.Sample == "" && len(choices) > 3 {
			st.Sample = describeSchedule(threads, choices)
		}
	}
}

func describeSchedule(threads [][]int, choices []int) string {
	var p []string
	for t, th := range threads {
		var n []string
		for _, c := range th {
			n = append(n, c12Calls[c].Name)
		}
		p = append(p, fmt.Sprintf("T%d:%s", t, strings.Join(n, ",")))
	}
	return fmt.Sprintf("threads {%s} after warm-up, choices %v (each entry: 0 = keep running / most recently freed printer)", strings.Join(p, " | "), choices)
}

// ---------------------------------------------------------------------------
// worker sub-process: ./verifh worker C12 <mode> <shard> <nshards> <tier>
// ---------------------------------------------------------------------------

// c12Crumb: the execution a worker is about to run, so that a worker killed by a fatal error in library code
// (stack overflow, concurrent map access) can still be reported with the history / schedule that killed it.
var c12Crumb *os.File

func crumb(s string) {
	b := make([]byte, 2048)
	copy(b, s)
	for i := len(s); i < len(b); i++ {
		b[i] = ' '
	}
	c12Crumb.WriteAt(b, 0)
}

// c12IsoRef: the results of call i in a process in which NO other call has run (printed as JSON). The references
// of c12Init are computed one after the other in one process; state kept outside the printer pool that is set by
// the FIRST call that needs it (a memo table) is the same in every history of that process and can only be seen
// by comparing with a process that made a different first call.
func c12IsoRef(i int) int {
	dblSafeRegister()
	c12Sched.ch = c12Ch
	buffer.VerifYield = func() { c12Sched.Point("write") }
	vsync.SetController(c12Pool)
	c12Ch.quiet = true
	c12Pool.cold = true
	vsync.Clear()
	var out [2]string
	out[0] = clone(c12Calls[i].Run())
	redact.RegisterRedactErrorFn(c02Hook)
	vsync.Clear()
	out[1] = clone(c12Calls[i].Run())
	json.NewEncoder(os.Stdout).Encode(out)
	return 0
}

var c12AddrRe = regexp.MustCompile(`0xc[0-9a-f]{8,11}`)

// c12IsoCompare runs call i alone in a fresh process and compares with the references of this process.
func c12IsoCompare(i int) string {
	cmd := exec.Command(os.Args[0], "worker", "C12ISO", fmt.Sprint(i))
	cmd.Env = append(os.Environ(), "GOMAXPROCS=2")
	outb, err := cmd.Output()
	var iso [2]string
	if err != nil || json.Unmarshal(outb, &iso) != nil {
		return fmt.Sprintf("isolated process for call %q failed: %v", c12Calls[i].Name, err)
	}
	norm := func(s string) string { return c12AddrRe.ReplaceAllString(s, "0xADDR") }
	if norm(iso[0]) != norm(c12RefsNoHook[i]) {
		return fmt.Sprintf("call %q returns %q in a process where it is the first call, but %q from a cold pool after the calls before it in the alphabet have run: its result depends on earlier calls through state kept outside the printer pool", c12Calls[i].Name, iso[0], c12RefsNoHook[i])
	}
	if norm(iso[1]) != norm(c12RefsHook[i]) {
		return fmt.Sprintf("with the error hook, call %q returns %q in a process where it is the first call, but %q after the other calls have run", c12Calls[i].Name, iso[1], c12RefsHook[i])
	}
	return ""
}

func c12Worker(args []string) int {
	if p := os.Getenv("VERIF_C12_CRUMB"); p != "" {
		c12Crumb, _ = os.Create(p)
	}
	mode := args[0]
	var shard, nsh int
	fmt.Sscan(args[1], &shard)
	fmt.Sscan(args[2], &nsh)
	tier := args[3]
	var budgetS int
	fmt.Sscan(args[4], &budgetS)
	start := timeNow()
	deadline := func() bool { return timeSince(start) > float64(budgetS) }
	c12Init()
	var st c12Stats
	st.Exhaustive = true
	if c12InitViolation != "" && shard == 0 {
		st.Violations = append(st.Violations, c12InitViolation)
		st.Cases = append(st.Cases, mustJSON(map[string]string{"init": c12InitViolation}))
		json.NewEncoder(os.Stdout).Encode(st)
		return 0
	}
	switch mode {
	case "hist", "hist+hook":
		var first []int
		for i := range c12Calls {
			if i%nsh == shard {
				first = append(first, i)
			}
		}
		depth := 2
		if tier == "thorough" {
			depth = 4
			noDedupeLevels = 2
		}
		st = historiesBFS(first, depth, mode == "hist+hook", deadline)
	case "sched":
		scen := c12Scenarios(tier)
		budget := 2
		if tier == "thorough" {
			budget = 3
		}
		for b := 0; b <= budget; b++ {
			ok := true
			for i, sc := range scen {
				if i%nsh != shard {
					continue
				}
				before := st.Exhaustive
				exploreSchedules(sc, b, &st, deadline)
				if !st.Exhaustive {
					ok = false
					_ = before
					break
				}
			}
			if !ok {
				break
			}
			st.BudgetDone = b
		}
	}
	json.NewEncoder(os.Stdout).Encode(st)
	return 0
}

// ---------------------------------------------------------------------------
// (a') end states: every short SafeWriter call sequence as the body of an earlier call, then probes on the
// recycled printer. The call alphabet of (a) fixes ~45 calls; what a call leaves behind in the printer it frees
// (mode, open-envelope flag, escaped prefix mark, flags) depends on the LAST operations it performed, so those are
// enumerated here: all sequences of <=k operations over the SafeWriter alphabet of C09 plus ill-formed
// pre-redactable operands and empty payloads.
// ---------------------------------------------------------------------------

type c12sfOps struct{ ops []*Op }

func (s c12sfOps) SafeFormat(p redact.SafePrinter, _ rune) {
	for _, o := range s.ops {
		applySW(p, o)
	}
}

func c12EndAlphabet() []Op {
	al := sigma(false, true)
	for _, x := range []string{mEnd, mStart, mStart + "a", "a" + mEnd, mRed, "", mEnd + mStart} {
		al = append(al, mkPrint(redact.RedactableString(x)), mkPrint(redact.RedactableBytes(x)))
	}
	al = append(al, mkPrint(), mkPrint(""), mkPrintf(""), mkPrintf("%s%s", redact.RedactableString(mEnd), ""), mkOp(kUnsafeString, ""), mkOp(kSafeString, ""), mkOp(kUnsafeBytes, ""), mkOp(kWrite, ""))
	// a LONG and a SHORT operand of every kind the printer may keep scratch memory for (a recycled printer that
	// remembers the longer one shows it on the shorter one): byte arrays by value, in a struct, as map value;
	// byte slices, strings, integer slices, maps, paddings, precisions
	type arrS struct {
		A [6]byte
		B [2]byte
	}
	al = append(al,
		mkPrintf("%x|%s|%q|%X", [16]byte{'s', 'e', 'c', 'r', 'e', 't', '-', 'k', 'e', 'y', '-', '0', '1', '2', '3', '4'}, [9]byte{'l', 'o', 'n', 'g', 'a', 'r', 'r', 'a', 'y'}, [5]byte{'q', 'u', 'o', 't', 'e'}, [7]byte{1, 2, 3, 4, 5, 6, 7}),
		mkPrintf("%x|%s|%q|%X", [4]byte{0xde, 0xad, 0xbe, 0xef}, [2]byte{'h', 'i'}, [1]byte{'q'}, [0]byte{}),
		mkPrintf("%x %s", arrS{[6]byte{'s', 't', 'r', 'u', 'c', 't'}, [2]byte{'a', 'b'}}, map[string][3]byte{"k": {'m', 'a', 'p'}}),
		mkPrintf("%x %s", arrS{}, map[string][1]byte{"k": {'z'}}),
		mkPrintf("%x|%q|%s", []byte("a-long-byte-slice-operand"), "a long string operand with several words", strings.Repeat("y", 100)),
		mkPrintf("%x|%q|%s", []byte("b"), "s", ""),
		mkPrintf("%v|%d", []int{1, 2, 3, 4, 5, 6, 7, 8, 9, 10, 11, 12}, map[string]int{"a": 1, "b": 2, "c": 3, "d": 4, "e": 5}),
		mkPrintf("%v|%d", []int{1}, map[string]int{"z": 26}),
		mkPrintf("%40d|%-30s|%.20f|%030.10x", 5, "pad", 3.14159, 255),
		mkPrintf("%2d|%-1s|%.1f|%01.1x", 5, "pad", 3.14159, 255),
		mkPrintf("%U|%#U|%c|%e", 0x1F600, 0x1F600, 0x1F600, 1e300),
		mkPrintf("%U|%#U|%c|%e", 0x41, 0x41, 0x41, 1.5),
		// per-call parser and flag state a recycled printer may keep: explicit indexes (reordered), bad indexes
		// (goodArgNum), stars, then formats WITHOUT verbs, with surplus or missing operands
		mkPrintf("%[2]d-%[1]d", 1, 2),
		mkPrintf("%[3]*.[2]*[1]f|%[1]d", 12.0, 2, 6),
		mkPrintf("%[9]d|%[x]d|%d", 1),
		mkPrintf("request done", 42, "secret"),
		mkPrintf("no verbs\n"),
		mkPrintf("%d %d %d", 1),
		mkPrintf("%!|%z|%", 1),
		mkPrintf("%+v|%#v|% d|%-5d|%05d|%x", structT{1, "b", nil}, []int{1}, 5, 5, 5, "hi"),
		mkPrintf("%v|%d", "plain", 7),
		mkPrint("a", 1, 2, "b", "c", 3.5, nil, errT{"e"}),
	)
	return al
}

var c12EndRoutes = []string{"Sprintfn(body)", "Sprint(SafeFormatter{body})", "Sprintf(%v|%v, Safe(SafeFormatter{body}), Unsafe(SafeFormatter{body}))", "SafeFormatter whose body runs on a nested printer (p.Printf(%v, SafeFormatter{body}))"}

type c12nestSF struct{ inner c12sfOps }

func (n c12nestSF) SafeFormat(p redact.SafePrinter, _ rune) { p.Printf("%v", n.inner) }

func c12EndRun(route int, ops []*Op) (out string) {
	defer func() {
		if pv := recover(); pv != nil {
			out = fmt.Sprintf("PANIC %v", pv)
		}
	}()
	body := c12sfOps{ops}
	switch route {
	case 0:
		return string(redact.Sprintfn(func(p redact.SafePrinter) { body.SafeFormat(p, 'v') }))
	case 1:
		return string(redact.Sprint(body))
	case 2:
		return string(redact.Sprintf("%v|%v", redact.Safe(body), redact.Unsafe(body)))
	default:
		return string(redact.Sprint(c12nestSF{body}))
	}
}

var c12Probes = []c12Call{
	{"Sprintf(hello %s, world)", func() string { return string(redact.Sprintf("hello %s", "world")) }},
	{"Sprint(x)", func() string { return string(redact.Sprint("x")) }},
	{"Sprintf(abc)", func() string { return string(redact.Sprintf("abc")) }},
	{"Sprint()", func() string { return string(redact.Sprint()) }},
	{"Sprint(Safe(s), 1, \"\\n\")", func() string { return string(redact.Sprint(redact.Safe("s"), 1, "\n")) }},
	{"Sprint(RedactableString)", func() string { return string(redact.Sprint(redact.RedactableString("r" + mStart + "x" + mEnd))) }},
	{"HelperForErrorf(%d %w)", func() string { return hef("%d %w", 3, c12e2) }},
}

type c12EndCase struct {
	Ops   []int    `json:"ops"`
	Names []string `json:"names"`
	Route int      `json:"route"`
	Probe int      `json:"probe"`
}

// c12EndEval: the earlier call (cold pool), then the probe on the printer it freed; "" when the probe returns
// what it returns from a cold pool.
func c12EndEval(al []Op, idx []int, route, probe int, refs []string) string {
	ops := make([]*Op, len(idx))
	for j, k := range idx {
		ops[j] = &al[k]
	}
	vsync.Clear()
	c12EndRun(route, ops)
	got := clone(c12Probes[probe].Run())
	if got != refs[probe] {
		return fmt.Sprintf("after %s with body %v, the call %s returns %q; from a cold pool it returns %q", c12EndRoutes[route], opNames(ops), c12Probes[probe].Name, got, refs[probe])
	}
	return ""
}

func c12EndRefs() []string {
	c12Pool.cold = true
	defer func() { c12Pool.cold = false }()
	var refs []string
	for _, p := range c12Probes {
		vsync.Clear()
		refs = append(refs, clone(p.Run()))
	}
	return refs
}

func c12EndStates(c *Ctx) {
	c12Init()
	c12Ch.quiet = true // every Get takes the default answer: the most recently freed printer
	defer func() { c12Ch.quiet = false }()
	al := c12EndAlphabet()
	precomputeRaw(al)
	depth := 2
	if !c.Quick() {
		depth = 3
	}
	refs := c12EndRefs()
	en := NewSeqEnum(len(al), depth)
	sec := &Section{Name: "C12/end-states", Exhaustive: true, Extra: map[string]interface{}{"alphabet_ops": len(al), "depth": depth, "routes": c12EndRoutes, "probes": len(c12Probes)}}
	w := &Worker{c: c, sec: sec, distinct: map[uint64]struct{}{}, extra: map[string]int64{}, stop: new(int32)}
	r0 := c12Pool.recycled
	for i := 0; i < en.Total; i++ {
		idx := en.Get(i, nil)
		for route := range c12EndRoutes {
			for probe := range c12Probes {
				sec.Evaluations++
				if d := c12EndEval(al, idx, route, probe, refs); d != "" {
					names := make([]string, len(idx))
					for j, k := range idx {
						names[j] = al[k].Name
					}
					w.Fail("end-state", c12EndCase{Ops: append([]int(nil), idx...), Names: names, Route: route, Probe: probe}, d)
				}
			}
		}
		if c.TimeUp() {
			sec.Exhaustive = false
			break
		}
	}
	// every operation of the alphabet as the probe (alone in a later call) after every body of <= pd operations
	pd := 1
	if !c.Quick() {
		pd = 2
	}
	opRefs := make([]string, len(al))
	c12Pool.cold = true
	for k := range al {
		vsync.Clear()
		opRefs[k] = clone(c12EndRun(0, []*Op{&al[k]}))
	}
	c12Pool.cold = false
	en2 := NewSeqEnum(len(al), pd)
	for i := 0; i < en2.Total && sec.Exhaustive; i++ {
		idx := en2.Get(i, nil)
		ops := make([]*Op, len(idx))
		for j, k := range idx {
			ops[j] = &al[k]
		}
		for route := 0; route < 2; route++ {
			for k := range al {
				sec.Evaluations++
				vsync.Clear()
				c12EndRun(route, ops)
				if got := clone(c12EndRun(0, []*Op{&al[k]})); got != opRefs[k] {
					names := make([]string, len(idx))
					for j, kk := range idx {
						names[j] = al[kk].Name
					}
					w.Fail("end-state", c12EndCase{Ops: append([]int(nil), idx...), Names: names, Route: route, Probe: -1 - k}, fmt.Sprintf("after %s with body %v, the call Sprintfn{%s} returns %q; from a cold pool it returns %q", c12EndRoutes[route], names, al[k].Name, got, opRefs[k]))
				}
			}
		}
		if c.TimeUp() {
			sec.Exhaustive = false
		}
	}
	sec.Extra["probe_all_operations_after_bodies_of_depth"] = pd
	sec.Distinct = int64(en.Total)
	sec.Extra["gets_served_by_recycled_printer"] = c12Pool.recycled - r0
	c.sections = append(c.sections, sec)
	fmt.Fprintf(os.Stderr, "[C12 %s] %-22s executions=%d bodies=%d recycled_gets=%d exhaustive=%v\n", c.Tier, sec.Name, sec.Evaluations, en.Total, c12Pool.recycled-r0, sec.Exhaustive)
	vsync.Clear()
}

// scenarios: which calls run on which threads
func c12Scenarios(tier string) [][][]int {
	sel := []int{0, 8, 13, 14, 16, 17, 18, 19, 21, 26, 27, 28, 29, 34, 35, 36}
	sel = append(sel, c12Idx("empty and nil maps"), c12Idx("map with yielding Stringer elements"), c12Idx("wide integer fields"))
	var sc [][][]int
	for i, a := range sel {
		for _, b := range sel[i:] {
			sc = append(sc, [][]int{{a}, {b}})
		}
	}
	if tier == "thorough" {
		small := []int{0, 8, 14, 17, 18, 27, 35, 36, c12Idx("empty and nil maps"), c12Idx("map with yielding Stringer elements")}
		for _, a := range small {
			for _, b := range small {
				sc = append(sc, [][]int{{a, b}, {b, a}})
			}
		}
		for i, a := range small {
			for j, b := range small[i:] {
				for _, d := range small[i+j:] {
					sc = append(sc, [][]int{{a}, {b}, {d}})
				}
			}
		}
	}
	return sc
}

// ---------------------------------------------------------------------------
// check driver
// ---------------------------------------------------------------------------

func init() {
	checks["C12"] = checkC12
	rules["C12"] = "(a) breadth-first search over pool states: every history of <=H calls over the call alphabet (every entry point and value class incl. maps and composites) x every answer sync.Pool may give at every Get (controlled pool), every call compared with its cold-pool result and all returned strings re-compared at the end; (b) stateless DFS over thread schedules and pool answers of 2-3 threads under a cooperative scheduler with a joint deviation budget (preemptions + non-default pool answers) of 0,1,2; (c) free-running -race pass (auxiliary, not exhaustive); distinct = distinct pool states"
	checks["C12RACE"] = checkC12Race
	replayers["C12/histories"] = func(c *Ctx, raw json.RawMessage) string {
		var cs c12HistCase
		json.Unmarshal(raw, &cs)
		c12Init()
		if cs.Hook {
			redact.RegisterRedactErrorFn(c02Hook)
			c12Refs = c12RefsHook
			defer func() { redact.RegisterRedactErrorFn(nil); c12Refs = c12RefsNoHook }()
		}
		f, _, _, _ := runHistory(cs.Path, -1, nil)
		return f
	}
	replayers["C12/histories+hook"] = replayers["C12/histories"]
	replayers["C12/end-states"] = func(c *Ctx, raw json.RawMessage) string {
		var cs c12EndCase
		json.Unmarshal(raw, &cs)
		c12Init()
		c12Ch.quiet = true
		defer func() { c12Ch.quiet = false }()
		al := c12EndAlphabet()
		precomputeRaw(al)
		if cs.Probe < 0 {
			k := -1 - cs.Probe
			c12Pool.cold = true
			vsync.Clear()
			ref := clone(c12EndRun(0, []*Op{&al[k]}))
			c12Pool.cold = false
			ops := make([]*Op, len(cs.Ops))
			for j, kk := range cs.Ops {
				ops[j] = &al[kk]
			}
			vsync.Clear()
			c12EndRun(cs.Route, ops)
			if got := clone(c12EndRun(0, []*Op{&al[k]})); got != ref {
				return fmt.Sprintf("after %s with body %v, the call Sprintfn{%s} returns %q; from a cold pool it returns %q", c12EndRoutes[cs.Route], cs.Names, al[k].Name, got, ref)
			}
			return ""
		}
		return c12EndEval(al, cs.Ops, cs.Route, cs.Probe, c12EndRefs())
	}
	replayers["C12/isolated-references"] = func(c *Ctx, raw json.RawMessage) string {
		var cs struct{ Call int }
		json.Unmarshal(raw, &cs)
		c12Init()
		return c12IsoCompare(cs.Call)
	}
	replayers["C12/schedules"] = func(c *Ctx, raw json.RawMessage) string {
		var cs c12SchedCase
		json.Unmarshal(raw, &cs)
		c12Init()
		f, _, _, _ := runSchedule(cs.Threads, cs.Choices)
		return f
	}
}

func runWorkers(c *Ctx, mode string, n int, budgetS int) (agg c12Stats, errs []string) {
	agg.Exhaustive = true
	agg.BudgetDone = 99
	var mu sync.Mutex
	var wg sync.WaitGroup
	for i := 0; i < n; i++ {
		i := i
		wg.Add(1)
		go func() {
			defer wg.Done()
			cmd := exec.Command(os.Args[0], "worker", "C12", mode, fmt.Sprint(i), fmt.Sprint(n), c.Tier, fmt.Sprint(budgetS))
			crumbPath := fmt.Sprintf("%s/c12-crumb-%s-%d", os.Getenv("VERIF_RUNDIR"), mode, i)
			cmd.Env = append(os.Environ(), "GOMAXPROCS=2", "VERIF_C12_CRUMB="+crumbPath)
			defer os.Remove(crumbPath)
			var errb strings.Builder
			cmd.Stderr = &errb
			out, err := cmd.Output()
			var st c12Stats
			mu.Lock()
			defer mu.Unlock()
			if err != nil || json.Unmarshal(out, &st) != nil {
				es := errb.String()
				if len(es) > 1500 {
					es = es[:1500]
				}
				cr, _ := os.ReadFile(crumbPath)
				errs = append(errs, fmt.Sprintf("worker %s/%d died (%v) while executing %s; stderr: %s", mode, i, err, strings.TrimSpace(string(cr)), es))
				return
			}
			agg.Executions += st.Executions
			agg.States += st.States
			agg.Transitions += st.Transitions
			agg.Recycled += st.Recycled
			agg.Fresh += st.Fresh
			agg.Points += st.Points
			agg.Violations = append(agg.Violations, st.Violations...)
			agg.Cases = append(agg.Cases, st.Cases...)
			if !st.Exhaustive {
				agg.Exhaustive = false
			}
			if st.BudgetDone < agg.BudgetDone {
				agg.BudgetDone = st.BudgetDone
			}
			if agg.Sample == "" {
				agg.Sample = st.Sample
			}
		}()
	}
	wg.Wait()
	return
}

func checkC12(c *Ctx) {
	if !strings.Contains(os.Getenv("VERIF_ANCHORS"), "pool") {
		c.Note("anchor for the controllable pool not found in print.go: pool-answer exploration impossible on this tree; no verdict derived")
		c.Section("C12/skipped", nil, 1, func(i int, w *Worker) { w.Eval(); w.Seen(1); w.Seen(2) }).Exhaustive = false
		return
	}
	nw := 16
	budget := 60
	if !c.Quick() {
		budget = 600
	}
	record := func(name string, st c12Stats, errs []string, extra map[string]interface{}) {
		sec := &Section{Name: name, Evaluations: st.Executions, Distinct: st.States, Exhaustive: st.Exhaustive && len(errs) == 0, Extra: extra}
		sec.Extra["gets_served_by_recycled_printer"] = st.Recycled
		sec.Extra["gets_served_by_new_printer"] = st.Fresh
		sec.Extra["scheduling_points"] = st.Points
		if st.Sample != "" {
			sec.Samples = []interface{}{st.Sample}
		}
		c.sections = append(c.sections, sec)
		fmt.Fprintf(os.Stderr, "[C12 %s] %-22s executions=%d states=%d recycled_gets=%d exhaustive=%v\n", c.Tier, name, st.Executions, st.States, st.Recycled, sec.Exhaustive)
		w := &Worker{c: c, sec: sec, distinct: map[uint64]struct{}{}, extra: map[string]int64{}, stop: new(int32)}
		for i, v := range st.Violations {
			var cs interface{} = nil
			if i < len(st.Cases) {
				cs = st.Cases[i]
			}
			w.Fail(name, cs, v)
		}
		for _, e := range errs {
			w.Fail("worker-crash", nil, e)
		}
	}
	depth := 2
	if !c.Quick() {
		depth = 4
	}
	c12EndStates(c)
	c12Init()
	c.Section("C12/isolated-references", map[string]interface{}{"calls": len(c12Calls), "processes": "one fresh process per call, in which it is the first call made", "oracle": "equal to the reference computed after the preceding calls of the alphabet"}, len(c12Calls), func(i int, w *Worker) {
		w.Eval()
		if d := c12IsoCompare(i); d != "" {
			w.Fail("isolated-reference", map[string]interface{}{"Call": i, "Name": c12Calls[i].Name}, d)
		}
		w.SeenS(c12RefsNoHook[i])
	})
	st, errs := runWorkers(c, "hist", nw, budget)
	record("C12/histories", st, errs, map[string]interface{}{"calls": len(c12Calls), "history_depth": depth, "pool_bound": vsync.Cap, "pool_answers": "every Get: any pooled printer or a new one"})
	st, errs = runWorkers(c, "hist+hook", nw, budget)
	record("C12/histories+hook", st, errs, map[string]interface{}{"calls": len(c12Calls), "history_depth": depth, "error_hook": true})
	st, errs = runWorkers(c, "sched", nw, budget)
	record("C12/schedules", st, errs, map[string]interface{}{"scenarios": len(c12Scenarios(c.Tier)), "threads": "2 (thorough: also 2x2 calls and 3 threads)", "deviation_budget_completed": st.BudgetDone, "scheduling_points": "pool Get/Put, every buffer write, inside user methods"})
	// (c) free-running race pass in a separately built -race binary
	if rb := os.Getenv("VERIF_RACE_BIN"); rb != "" {
		// cold starts: a fresh process per first call (what is set up on first use can only race once per process)
		step := 3
		if !c.Quick() {
			step = 1
		}
		var coldErr error
		var coldOut string
		var coldRuns int64
		for rot := 0; rot < len(c12Calls) && coldErr == nil; rot += step {
			cc := exec.Command(rb, "C12RACE", c.Tier)
			cc.Env = append(os.Environ(), "GORACE=halt_on_error=1 exitcode=66", fmt.Sprintf("VERIF_COLD_ONLY=%d", rot))
			o, e := cc.CombinedOutput()
			coldRuns++
			if e != nil {
				coldErr, coldOut = e, fmt.Sprintf("cold start with first call %q: ", c12Calls[rot].Name)+string(o)
			}
		}
		cmd := exec.Command(rb, "C12RACE", c.Tier)
		cmd.Env = append(os.Environ(), "GORACE=halt_on_error=1 exitcode=66")
		out, err := cmd.CombinedOutput()
		o := string(out)
		if coldErr != nil {
			err, o = coldErr, coldOut
		}
		if len(o) > 3000 {
			o = o[:3000]
		}
		sec := &Section{Name: "C12/race-pass(auxiliary)", Exhaustive: true, Extra: map[string]interface{}{"note": "free-running goroutines with the real sync.Pool under the race detector; sampling, NOT part of the exhaustive claim"}}
		var n int64
		if i := strings.Index(o, "RACEPASS calls="); i >= 0 {
			fmt.Sscanf(o[i:], "RACEPASS calls=%d", &n)
		}
		sec.Evaluations = n
		sec.Extra["cold_start_processes"] = coldRuns
		c.sections = append(c.sections, sec)
		fmt.Fprintf(os.Stderr, "[C12 %s] race pass: calls=%d err=%v\n", c.Tier, n, err)
		if err != nil {
			w := &Worker{c: c, sec: sec, distinct: map[uint64]struct{}{}, extra: map[string]int64{}, stop: new(int32)}
			w.Fail("race-pass", nil, "free-running -race pass failed: "+err.Error()+"\n"+o)
		}
	} else {
		c.Note("no -race binary available (VERIF_RACE_BIN unset): the auxiliary race pass was skipped")
	}
	c.Assume("sync.Pool's contract: Get returns any object previously Put (and not handed out) or a new one; every real behaviour is one of the explored answers. Pool bounded at 3 objects; unsynchronised accesses are only sampled by the race pass")
}

// checkC12Race runs inside the -race build.
func checkC12Race(c *Ctx) {
	vsync.SetController(nil)
	coldRot := 0
	fmt.Sscan(os.Getenv("VERIF_COLD_ONLY"), &coldRot)
	// phase 0: COLD START. 16 goroutines leave a barrier together and make the very first calls of the process,
	// each a different one, before anything ran sequentially: state that is set up on first use (lazily compiled
	// patterns, caches) is initialised under contention here and nowhere else. Results are compared afterwards.
	{
		start := make(chan struct{})
		var wg0 sync.WaitGroup
		first := make([][]c12Obs, 16)
		for g := 0; g < 16; g++ {
			g := g
			wg0.Add(1)
			go func() {
				defer wg0.Done()
				<-start
				// every goroutine makes the SAME first call (index rot), so that whatever it sets up on first use is
				// set up by 16 goroutines at once; afterwards the orders diverge
				first[g] = append(first[g], doCall(coldRot%len(c12Calls)))
				for k := range c12Calls {
					if os.Getenv("VERIF_COLD_ONLY") != "" && k >= 6 {
						break // a cold-only process is about its FIRST calls
					}
					i := (coldRot + 1 + k + g*5) % len(c12Calls)
					first[g] = append(first[g], doCall(i))
				}
			}()
		}
		close(start)
		wg0.Wait()
		for g := range first {
			for _, o := range first[g] {
				if ref := clone(c12Calls[o.call].Run()); o.keep != ref || o.result != o.keep {
					fmt.Printf("cold start, goroutine %d: call %q returned %q (now %q), sequentially it returns %q\n", g, c12Calls[o.call].Name, o.keep, o.result, ref)
					os.Exit(1)
				}
			}
		}
	}
	if os.Getenv("VERIF_COLD_ONLY") != "" {
		fmt.Printf("RACEPASS calls=%d\n", 16*(len(c12Calls)+1))
		return
	}
	// references from this build, single goroutine
	var refs []string
	for _, cl := range c12Calls {
		refs = append(refs, clone(cl.Run()))
	}
	iters := 150
	if !c.Quick() {
		iters = 1500
	}
	var wg sync.WaitGroup
	var mu sync.Mutex
	var bad []string
	var calls int64
	for g := 0; g < 16; g++ {
		g := g
		wg.Add(1)
		go func() {
			defer wg.Done()
			var kept []c12Obs
			n := int64(0)
			for it := 0; it < iters; it++ {
				for k := range c12Calls {
					i := (k*7 + g*3 + it) % len(c12Calls)
					if i == 25 && it%20 != 0 {
						continue // the 70 kB call is expensive under -race
					}
					r := c12Calls[i].Run()
					n++
					if r != refs[i] {
						mu.Lock()
						bad = append(bad, fmt.Sprintf("goroutine %d: call %q returned %q, want %q", g, c12Calls[i].Name, r, refs[i]))
						mu.Unlock()
						return
					}
					if len(kept) < 64 {
						kept = append(kept, c12Obs{call: i, result: r, keep: clone(r)})
					}
				}
				for _, o := range kept {
					if o.result != o.keep {
						mu.Lock()
						bad = append(bad, fmt.Sprintf("goroutine %d: string returned by %q modified later: %q -> %q", g, c12Calls[o.call].Name, o.keep, o.result))
						mu.Unlock()
						return
					}
				}
				kept = kept[:0]
			}
			mu.Lock()
			calls += n
			mu.Unlock()
		}()
	}
	wg.Wait()
	fmt.Printf("RACEPASS calls=%d\n", calls)
	if len(bad) > 0 {
		fmt.Println(strings.Join(bad[:1], "\n"))
		os.Exit(1)
	}
	os.Exit(0)
}

package main

import (
	"bytes"
	"encoding/json"
	"fmt"
	"reflect"

	redact "github.com/cockroachdb/redact"
	"github.com/cockroachdb/redact/internal/buffer"
)

func init() {
	checks["C13"] = checkC13
	rules["C13"] = "every accessor and every reset applied at every explored buffer state (explicit-state search) and inserted at every position of every call sequence up to the stated depth, on StringBuilder and ManualBuffer; white-box state comparison plus black-box comparison of all one/two-step futures; distinct = distinct canonical states / outputs"
	replayers["C13/state"] = func(c *Ctx, raw json.RawMessage) string {
		var cs stateCase
		json.Unmarshal(raw, &cs)
		s := buffer.VerifMake(cs.State)
		return c13AtState(&s, nil)
	}
	replayers["C13/seq"] = func(c *Ctx, raw json.RawMessage) string {
		var cs seqCase
		json.Unmarshal(raw, &cs)
		return c13EvalSeq(sigmaNamed(cs.Alpha, cs.Full, cs.Invalid), cs.Ops, nil)
	}
}

type accessor struct {
	Name string
	Call func(b *buffer.Buffer) interface{}
}

var accessors = []accessor{
	{"Len", func(b *buffer.Buffer) interface{} { return b.Len() }},
	{"Cap", func(b *buffer.Buffer) interface{} { return b.Cap() }},
	{"String", func(b *buffer.Buffer) interface{} { return b.String() }},
	{"RedactableString", func(b *buffer.Buffer) interface{} { return b.RedactableString() }},
	{"RedactableBytes", func(b *buffer.Buffer) interface{} { return b.RedactableBytes() }},
	{"GetMode", func(b *buffer.Buffer) interface{} { return b.GetMode() }},
}

type resetter struct {
	Name string
	Call func(b *buffer.Buffer) string // returns the string handed out ("" for Reset)
	Str  bool
}

var resetters = []resetter{
	{"Reset", func(b *buffer.Buffer) string { b.Reset(); return "" }, false},
	{"TakeRedactableString", func(b *buffer.Buffer) string { return string(b.TakeRedactableString()) }, true},
	{"TakeRedactableBytes", func(b *buffer.Buffer) string { b.TakeRedactableBytes(); return "" }, false},
}

func sameState(a, b buffer.VState) bool {
	return bytes.Equal(a.Buf, b.Buf) && a.ValidUntil == b.ValidUntil && a.Mode == b.Mode && a.MarkerOpen == b.MarkerOpen && a.Cap == b.Cap && a.Nil == b.Nil
}

func finalOf(b *buffer.Buffer) string {
	c := b.VerifClone()
	return string(c.RedactableString())
}

// futuresDiffer compares all futures of depth 1 (and depth 2 when deep) of two buffers
// through their public results only. Returns a description of the first difference.
func futuresDiffer(x, y *buffer.Buffer, ops []bufOp, deep bool) string {
	obs := func(b *buffer.Buffer) string {
		c := b.VerifClone()
		return fmt.Sprintf("%q len=%d mode=%d", c.RedactableString(), c.Len(), c.GetMode())
	}
	if ox, oy := obs(x), obs(y); ox != oy {
		return fmt.Sprintf("observable state %s vs %s", ox, oy)
	}
	for oi := range ops {
		op := &ops[oi]
		if op.Kind == 'w' && op.Raw != (x.GetMode() == buffer.SafeRaw) {
			continue
		}
		u, v := x.VerifClone(), y.VerifClone()
		_, p1 := recoverTo(func() { op.Apply(&u) })
		_, p2 := recoverTo(func() { op.Apply(&v) })
		if p1 != p2 {
			return fmt.Sprintf("%s panics=%v vs %v", op.Name, p1, p2)
		}
		if p1 {
			continue
		}
		if ou, ov := obs(&u), obs(&v); ou != ov {
			return fmt.Sprintf("after %s: %s vs %s", op.Name, ou, ov)
		}
		if !deep {
			continue
		}
		for oj := range ops {
			op2 := &ops[oj]
			if op2.Kind == 'w' && op2.Raw != (u.GetMode() == buffer.SafeRaw) {
				continue
			}
			u2, v2 := u.VerifClone(), v.VerifClone()
			_, q1 := recoverTo(func() { op2.Apply(&u2) })
			_, q2 := recoverTo(func() { op2.Apply(&v2) })
			if q1 != q2 {
				return fmt.Sprintf("%s, %s panics=%v vs %v", op.Name, op2.Name, q1, q2)
			}
			if q1 {
				continue
			}
			if ou, ov := obs(&u2), obs(&v2); ou != ov {
				return fmt.Sprintf("after %s, %s: %s vs %s", op.Name, op2.Name, ou, ov)
			}
		}
	}
	return ""
}

// c13AtState checks every accessor and resetter at one concrete state. The
// verdict is black-box (public results of all futures); a hidden-state
// difference seen through the hook only deepens the future exploration.
func c13AtState(s *buffer.Buffer, w *Worker) string {
	ops := bufOps()
	before := s.VerifState()
	want := finalOf(s)
	for _, a := range accessors {
		t := s.VerifClone()
		var res interface{}
		if pv, pan := recoverTo(func() { res = a.Call(&t) }); pan {
			return fmt.Sprintf("%s panics at state %+v: %v", a.Name, before, pv)
		}
		if w != nil {
			w.Eval()
		}
		after := t.VerifState()
		hidden := !sameState(before, after)
		if hidden && w != nil {
			w.Count("hidden_state_changes_explored_deeper", 1)
		}
		switch a.Name {
		case "Len":
			if res.(int) != len(want) {
				return fmt.Sprintf("Len()=%d but RedactableString() has %d bytes (%q) at state %+v", res, len(want), want, before)
			}
		case "RedactableString":
			if string(res.(redact.RedactableString)) != want {
				return fmt.Sprintf("RedactableString differs between two calls at state %+v", before)
			}
		case "RedactableBytes":
			if string(res.(redact.RedactableBytes)) != want {
				return fmt.Sprintf("RedactableBytes()=%q but RedactableString()=%q at state %+v", res, want, before)
			}
		case "String":
			if res.(string) != redact.RedactableString(want).StripMarkers() {
				return fmt.Sprintf("String()=%q but RedactableString().StripMarkers()=%q at state %+v", res, redact.RedactableString(want).StripMarkers(), before)
			}
		}
		if d := futuresDiffer(s, &t, ops, hidden); d != "" {
			return fmt.Sprintf("calling %s at state %+v changes what follows: without/with: %s", a.Name, before, d)
		}
	}
	// resets
	for _, r := range resetters {
		t := s.VerifClone()
		var handed string
		if pv, pan := recoverTo(func() { handed = r.Call(&t) }); pan {
			return fmt.Sprintf("%s panics at state %+v: %v", r.Name, before, pv)
		}
		if w != nil {
			w.Eval()
		}
		if r.Str && handed != want {
			return fmt.Sprintf("%s returned %q, RedactableString() was %q (state %+v)", r.Name, handed, want, before)
		}
		keep := clone(handed)
		var fresh buffer.Buffer
		ts := t.VerifState()
		hidden := len(ts.Buf) != 0 || ts.ValidUntil != 0 || ts.Mode != buffer.UnsafeEscaped || ts.MarkerOpen
		if d := futuresDiffer(&fresh, &t, ops, true); d != "" {
			return fmt.Sprintf("after %s at state %+v the buffer does not behave like a new one: new/reset: %s", r.Name, before, d)
		}
		_ = hidden
		if r.Str {
			live := t // same backing array as the reset buffer
			recoverTo(func() {
				live.SetMode(buffer.SafeEscaped)
				live.WriteString("ZZZZZZZZZZZZZZZZ")
				live.SetMode(buffer.UnsafeEscaped)
				live.WriteString("YYYY")
				_ = live.RedactableString()
			})
			if handed != keep {
				return fmt.Sprintf("string obtained from %s at state %+v was modified by later writes: %q -> %q", r.Name, before, keep, handed)
			}
		}
	}
	return ""
}

// c13EvalSeq: a call sequence on StringBuilder with each accessor / resetter inserted at each position.
func c13EvalSeq(al []Op, idx []int, w *Worker) string {
	ops := make([]*Op, len(idx))
	for i, k := range idx {
		if k >= len(al) {
			return "op index out of range"
		}
		ops[i] = &al[k]
	}
	run := func(pos int, acc func(b *redact.StringBuilder)) (out string, handed []string, copies []string, pan bool) {
		_, pan = recoverTo(func() {
			var b redact.StringBuilder
			for i, o := range ops {
				if i == pos && acc != nil {
					acc(&b)
				}
				applySW(&b, o)
			}
			if pos == len(ops) && acc != nil {
				acc(&b)
			}
			out = string(b.RedactableString())
		})
		return
	}
	base, _, _, bp := run(-1, nil)
	if bp {
		return "" // C11's business
	}
	for pos := 0; pos <= len(ops); pos++ {
		for _, a := range accessors {
			a := a
			var lenRes, rsLen = -1, -1
			got, _, _, pan := run(pos, func(b *redact.StringBuilder) {
				r := a.Call(&b.Buffer)
				if a.Name == "Len" {
					lenRes = r.(int)
					rsLen = len(b.RedactableString())
				}
			})
			if w != nil {
				w.Eval()
			}
			if pan || got != base {
				return fmt.Sprintf("%v with %s inserted at %d gives %q instead of %q", opNames(ops), a.Name, pos, got, base)
			}
			if lenRes != rsLen {
				return fmt.Sprintf("%v: at position %d Len()=%d but len(RedactableString())=%d", opNames(ops), pos, lenRes, rsLen)
			}
		}
		// resets: the rest of the sequence behaves as on a new builder; strings obtained earlier survive
		for _, r := range resetters {
			r := r
			var strs, keeps []string
			var tail string
			_, pan := recoverTo(func() {
				var b redact.StringBuilder
				for _, o := range ops[:pos] {
					applySW(&b, o)
				}
				s1 := string(b.RedactableString())
				s0 := b.String()
				s2 := r.Call(&b.Buffer)
				strs = []string{s0, s1, s2}
				keeps = []string{clone(s0), clone(s1), clone(s2)}
				for _, o := range ops[pos:] {
					applySW(&b, o)
				}
				tail = string(b.RedactableString())
			})
			var fresh string
			_, pan2 := recoverTo(func() {
				var b redact.StringBuilder
				for _, o := range ops[pos:] {
					applySW(&b, o)
				}
				fresh = string(b.RedactableString())
			})
			if w != nil {
				w.Eval()
			}
			if pan != pan2 || tail != fresh {
				return fmt.Sprintf("%v: after %s at position %d the remaining calls give %q, on a new builder %q", opNames(ops), r.Name, pos, tail, fresh)
			}
			if !reflect.DeepEqual(strs, keeps) {
				return fmt.Sprintf("%v: a string obtained before/at %s (position %d) was modified by later writes: %q -> %q", opNames(ops), r.Name, pos, keeps, strs)
			}
		}
	}
	if w != nil {
		w.SeenS(base)
	}
	return ""
}

func clone(s string) string { return string(append([]byte(nil), s...)) }

func checkC13(c *Ctx) {
	depth, maxStates := 4, 200000
	if !c.Quick() {
		depth, maxStates = 6, 1500000
	}
	st := bufferBFS(c, "C13/state", depth, maxStates, func(s *buffer.Buffer, w *Worker) {
		if d := c13AtState(s, w); d != "" {
			w.Fail("accessor-or-reset", stateCase{State: s.VerifState()}, d)
		}
	}, nil)
	c.states += st.States
	c.Note(fmt.Sprintf("explicit-state search: %d canonical buffer states, %d transitions, depth %d, closed=%v", st.States, st.Transitions, st.Depth, st.Closed))
	ld := 2
	if !c.Quick() {
		ld = 3
	}
	stL := bufferBFSFrom(c, "C13/state-large", largeInits(largeSizes(c.Quick())), ld, maxStates, func(s *buffer.Buffer, w *Worker) {
		if d := c13AtState(s, w); d != "" {
			w.Fail("accessor-or-reset", stateCase{State: s.VerifState()}, d)
		}
	}, nil)
	c.states += stL.States
	c.Note(fmt.Sprintf("explicit-state search from large buffers (sizes %v, escaped and pending): %d states, %d transitions, depth %d", largeSizes(c.Quick()), stL.States, stL.Transitions, stL.Depth))
	ev := func(al []Op, idx []int, w *Worker) (string, string) {
		return "seq-accessor-or-reset", c13EvalSeq(al, idx, w)
	}
	if c.Quick() {
		runSeqSection(c, "C13/seq", false, false, 2, false, ev)
	} else {
		runSeqSection(c, "C13/seq", false, false, 3, false, ev)
		runSeqSection(c, "C13/seq", true, false, 2, false, ev)
	}
	c.Assume("RedactableBytes results are not claimed immutable (the property speaks of strings); spare-capacity contents are not state")
}

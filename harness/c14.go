package main

import (
	"encoding/json"
	"fmt"
	"math"
	"sort"
	"strings"
	"unicode/utf8"

	redact "github.com/cockroachdb/redact"
)

func init() {
	replayers["C14/flag-order"] = func(c *Ctx, raw json.RawMessage) string {
		var cs struct {
			D Directive
			V int
		}
		if json.Unmarshal(raw, &cs) == nil && cs.D.Verb != 0 {
			return c14Wrappers(cs.D, cs.V)
		}
		var d Directive
		json.Unmarshal(raw, &d)
		return c14RoundTrip(d)
	}
	replayers["C14/nested-print"] = func(c *Ctx, raw json.RawMessage) string {
		var cs struct {
			How int
			D   Directive
		}
		json.Unmarshal(raw, &cs)
		return c14NestedPrint(cs.D, cs.How)
	}
	checks["C14"] = checkC14
	rules["C14"] = "the complete product 32 flag subsets x 8 widths x 6 precisions x 58 verbs, under fmt's State and under redact's printer (Formatter and SafeFormatter entry), round-tripped through MakeFormat; x 14 operands of every basic kind for Safe/Unsafe/forwarder fidelity under fmt; distinct = distinct reproduced formats / outputs"
	replayers["C14/roundtrip"] = func(c *Ctx, raw json.RawMessage) string {
		var d Directive
		json.Unmarshal(raw, &d)
		return c14RoundTrip(d)
	}
	replayers["C14/after-directive"] = func(c *Ctx, raw json.RawMessage) string {
		var cs struct {
			First int
			D     Directive
		}
		json.Unmarshal(raw, &cs)
		return c14After([]string{"%5d|", "%-12.3f|", "%+x|", "%#v|", "%08.2f|", "%*d|", "% d|", "%.7s|"}[cs.First], cs.D)
	}
	replayers["C14/large-numbers"] = func(c *Ctx, raw json.RawMessage) string {
		var cs struct{ F string }
		json.Unmarshal(raw, &cs)
		return c14BigNumber(cs.F)
	}
	replayers["C14/after-kind"] = func(c *Ctx, raw json.RawMessage) string {
		var cs struct {
			Operand int
			D       Directive
		}
		json.Unmarshal(raw, &cs)
		return c14AfterKind(cs.Operand, cs.D)
	}
	replayers["C14/after-element"] = func(c *Ctx, raw json.RawMessage) string {
		var cs struct {
			Container int
			D         Directive
		}
		json.Unmarshal(raw, &cs)
		return c14AfterElement(cs.Container, cs.D)
	}
	replayers["C14/extra-operand"] = func(c *Ctx, raw json.RawMessage) string {
		var d Directive
		json.Unmarshal(raw, &d)
		return c14Extra(d)
	}
	replayers["C14/roundtrip-wide"] = replayers["C14/roundtrip"]
	replayers["C14/wrappers"] = func(c *Ctx, raw json.RawMessage) string {
		var cs struct {
			D Directive
			V int
		}
		json.Unmarshal(raw, &cs)
		return c14Wrappers(cs.D, cs.V)
	}
}

type fstate struct {
	Verb                         rune
	Plus, Minus, Sharp, Sp, Zero bool
	Wid, Prec                    int
	WidOK, PrecOK                bool
	JustV                        bool
	Fmt                          string
	Called                       bool
}

func (s fstate) key() string {
	w, p := s.Wid, s.Prec
	if !s.WidOK {
		w = 0
	}
	if !s.PrecOK {
		p = 0
	}
	return fmt.Sprintf("%c %v%v%v%v%v w=%d/%v p=%d/%v", s.Verb, s.Plus, s.Minus, s.Sharp, s.Sp, s.Zero, w, s.WidOK, p, s.PrecOK)
}

func capture(s fmt.State, verb rune) fstate {
	st := fstate{Verb: verb, Called: true, Plus: s.Flag('+'), Minus: s.Flag('-'), Sharp: s.Flag('#'), Sp: s.Flag(' '), Zero: s.Flag('0')}
	st.Wid, st.WidOK = s.Width()
	st.Prec, st.PrecOK = s.Precision()
	st.JustV, st.Fmt = redact.MakeFormat(s, verb)
	return st
}

type recFormatter struct{ st *fstate }

func (r recFormatter) Format(s fmt.State, verb rune) { *r.st = capture(s, verb) }

type recSafeFormatter struct{ st *fstate }

func (r recSafeFormatter) SafeFormat(s redact.SafePrinter, verb rune) { *r.st = capture(s, verb) }

func sortedFlags(f string) string {
	// split "%<flags><rest>" and sort the flag characters
	if len(f) == 0 || f[0] != '%' {
		return f
	}
	i := 1
	for i < len(f) && strings.IndexByte(flagChars, f[i]) >= 0 {
		i++
	}
	fl := []byte(f[1:i])
	sort.Slice(fl, func(a, b int) bool { return fl[a] < fl[b] })
	return "%" + string(fl) + f[i:]
}

func c14RoundTrip(d Directive) string {
	f, stars := d.Format()
	type printer struct {
		name string
		run  func(format string, st *fstate, args []interface{})
	}
	printers := []printer{
		{"fmt/Formatter", func(format string, st *fstate, a []interface{}) {
			fmt.Sprintf(format, append(a, recFormatter{st})...)
		}},
		{"redact/Formatter", func(format string, st *fstate, a []interface{}) {
			redact.Sprintf(format, append(a, recFormatter{st})...)
		}},
		{"redact/SafeFormatter", func(format string, st *fstate, a []interface{}) {
			redact.Sprintf(format, append(a, recSafeFormatter{st})...)
		}},
	}
	var first *fstate
	for _, p := range printers {
		var s1, s2 fstate
		p.run(f, &s1, append([]interface{}{}, stars...))
		if !s1.Called {
			// %T, %p never dispatch; %w is a bad verb under redact.Sprintf; fmt dispatches %w to Formatter only via Errorf
			continue
		}
		if s1.Verb != d.Verb {
			return fmt.Sprintf("%s %s: method saw verb %q", p.name, d, s1.Verb)
		}
		// redact's printer presents the same state as fmt's for the same directive
		// (except where the zero flag meets a minus flag: changed across Go releases)
		if !d.zeroMeetsMinus() {
			if first == nil {
				c := s1
				first = &c
			} else if first.key() != s1.key() {
				return fmt.Sprintf("%s %s: state %s, but fmt's State presents %s", p.name, d, s1.key(), first.key())
			}
		}
		bare := !s1.Plus && !s1.Minus && !s1.Sharp && !s1.Sp && !s1.Zero && !s1.WidOK && !s1.PrecOK && s1.Verb == 'v'
		if s1.JustV != bare {
			return fmt.Sprintf("%s %s: justV=%v but bare %%v=%v", p.name, d, s1.JustV, bare)
		}
		p.run(s1.Fmt, &s2, nil)
		if !s2.Called {
			return fmt.Sprintf("%s %s: reproduced format %q does not reach the formatter again", p.name, d, s1.Fmt)
		}
		if s1.key() != s2.key() {
			return fmt.Sprintf("%s %s: state %s, after MakeFormat=%q state %s", p.name, d, s1.key(), s1.Fmt, s2.key())
		}
		if s2.Fmt != s1.Fmt {
			return fmt.Sprintf("%s %s: MakeFormat not stable: %q then %q", p.name, d, s1.Fmt, s2.Fmt)
		}
		if p.name == "fmt/Formatter" {
			var ref string
			fmt.Sprintf(f, append(append([]interface{}{}, stars...), fmtStringer{&ref})...)
			if sortedFlags(ref) != sortedFlags(s1.Fmt) {
				return fmt.Sprintf("%s %s: MakeFormat=%q, fmt.FormatString=%q", p.name, d, s1.Fmt, ref)
			}
		}
	}
	return ""
}

// c14After: the state captured for directive d alone equals the state captured when d follows `first`.
func c14After(first string, d Directive) string {
	f, stars := d.Format()
	var pre []interface{}
	if first == "%*d|" {
		pre = []interface{}{9, 1}
	} else if first == "%.7s|" {
		pre = []interface{}{"s"}
	} else {
		pre = []interface{}{1.5}
		if first == "%5d|" || first == "%+x|" || first == "% d|" {
			pre = []interface{}{1}
		}
	}
	type runner func(format string, args []interface{})
	for name, mk := range map[string]func(st *fstate) interface{}{
		"Formatter":     func(st *fstate) interface{} { return recFormatter{st} },
		"SafeFormatter": func(st *fstate) interface{} { return recSafeFormatter{st} },
	} {
		for _, pn := range []string{"fmt", "redact"} {
			if pn == "fmt" && name == "SafeFormatter" {
				continue
			}
			var run runner = func(format string, args []interface{}) { fmt.Sprintf(format, args...) }
			if pn == "redact" {
				run = func(format string, args []interface{}) { redact.Sprintf(format, args...) }
			}
			var alone, after fstate
			run(f, append(append([]interface{}{}, stars...), mk(&alone)))
			run(first+f, append(append(append([]interface{}{}, pre...), stars...), mk(&after)))
			if alone.Called != after.Called || (alone.Called && (alone.key() != after.key() || alone.Fmt != after.Fmt || alone.JustV != after.JustV)) {
				return fmt.Sprintf("%s/%s: directive %s alone: state %s MakeFormat=%q; after %q: state %s MakeFormat=%q", pn, name, d, alone.key(), alone.Fmt, first, after.key(), after.Fmt)
			}
		}
	}
	return ""
}

type c14Pair struct {
	A interface{}
	F interface{}
}

// c14Extra: a formatter printed as an EXTRA operand (more operands than directives) sees the bare %v state,
// under fmt and under redact, whatever the last directive was.
func c14Extra(d Directive) string {
	if d.Verb == 'T' || d.Verb == 'p' || d.Verb == '%' {
		return ""
	}
	f, stars := d.Format()
	for name, mk := range map[string]func(st *fstate) interface{}{
		"Formatter":     func(st *fstate) interface{} { return recFormatter{st} },
		"SafeFormatter": func(st *fstate) interface{} { return recSafeFormatter{st} },
	} {
		for _, pn := range []string{"fmt", "redact"} {
			if pn == "fmt" && name == "SafeFormatter" {
				continue
			}
			var st fstate
			args := append(append([]interface{}{}, stars...), 3.5, mk(&st))
			if pn == "redact" {
				redact.Sprintf("x"+f+"y", args...)
			} else {
				fmt.Sprintf("x"+f+"y", args...)
			}
			if !st.Called {
				return fmt.Sprintf("%s/%s: extra operand after %s was not formatted", pn, name, d)
			}
			if !st.JustV || st.Fmt != "%v" {
				return fmt.Sprintf("%s/%s: a formatter printed as EXTRA operand after %s sees state %s, MakeFormat=(%v,%q); want the bare %%v", pn, name, d, st.key(), st.JustV, st.Fmt)
			}
		}
	}
	return ""
}

var c14Containers = []struct {
	Name string
	Mk   func(f interface{}) interface{}
}{
	{"[]interface{}{0, F}", func(f interface{}) interface{} { return []interface{}{0, f} }},
	{"[]interface{}{-1.5, \"s\", F}", func(f interface{}) interface{} { return []interface{}{-1.5, "s", f} }},
	{"struct{A:0, F}", func(f interface{}) interface{} { return c14Pair{0, f} }},
	{"struct{A:uint8(200), F}", func(f interface{}) interface{} { return c14Pair{uint8(200), f} }},
	{"map{a:0, b:F}", func(f interface{}) interface{} { return map[string]interface{}{"a": 0, "b": f} }},
	{"[]interface{}{nil, true, \"\", F}", func(f interface{}) interface{} { return []interface{}{nil, true, "", f} }},
	{"[]interface{}{[]byte(\"x\"), 'c', F}", func(f interface{}) interface{} { return []interface{}{[]byte("x"), 'c', f} }},
	// elements with formatting methods before F: each dispatch saves/clears/restores formatter state on its own path
	{"[]interface{}{Stringer, error, F}", func(f interface{}) interface{} { return []interface{}{strT{"s"}, errT{"e"}, f} }},
	{"[]interface{}{Formatter, GoStringer, F}", func(f interface{}) interface{} { return []interface{}{fmtT{"f"}, goT{"g"}, f} }},
	{"[]interface{}{SafeFormatter, Safe(1), Unsafe(2), F}", func(f interface{}) interface{} {
		return []interface{}{safeFmtT{"k", "v"}, redact.Safe(1), redact.Unsafe(2), f}
	}},
	{"[]interface{}{RedactableString, (*Stringer)(nil), F}", func(f interface{}) interface{} {
		return []interface{}{redact.RedactableString("r"), (*ptrStrT)(nil), f}
	}},
	{"struct{A: panicking Stringer, F} (panic report before F)", func(f interface{}) interface{} { return c14Pair{panStrT{"boom"}, f} }},
	{"[]interface{}{panicking error, panicking Formatter, F} (panic report before F)", func(f interface{}) interface{} {
		return []interface{}{panErrT{"eb"}, panFmtT{"fb"}, f}
	}},
}

// c14AfterElement: the state a formatter sees inside a container does not depend on the elements before it.
func c14AfterElement(ci int, d Directive) string {
	if d.Verb == 'T' || d.Verb == 'p' {
		return ""
	}
	f, stars := d.Format()
	for name, mk := range map[string]func(st *fstate) interface{}{
		"Formatter":     func(st *fstate) interface{} { return recFormatter{st} },
		"SafeFormatter": func(st *fstate) interface{} { return recSafeFormatter{st} },
	} {
		for _, pn := range []string{"fmt", "redact"} {
			if pn == "fmt" && name == "SafeFormatter" {
				continue
			}
			if pn == "fmt" && strings.Contains(c14Containers[ci].Name, "panic report") && (d.Wid != 0 || d.Prec != 0) {
				continue // Go >= 1.21 fmt itself forgets width and precision after a panic report
			}
			run := func(arg interface{}) {
				args := append(append([]interface{}{}, stars...), arg)
				if pn == "redact" {
					redact.Sprintf(f, args...)
				} else {
					fmt.Sprintf(f, args...)
				}
			}
			var alone, inside fstate
			run([]interface{}{mk(&alone)})
			run(c14Containers[ci].Mk(mk(&inside)))
			if alone.Called != inside.Called || (alone.Called && (alone.key() != inside.key() || alone.Fmt != inside.Fmt)) {
				return fmt.Sprintf("%s/%s: directive %s: formatter alone in a slice sees state %s (MakeFormat=%q), after other elements in %s it sees %s (MakeFormat=%q)", pn, name, d, alone.key(), alone.Fmt, c14Containers[ci].Name, inside.key(), inside.Fmt)
			}
		}
	}
	return ""
}

// c14AfterKind: as c14AfterElement, with EVERY operand of c14Operands (each basic kind with its extremes, named
// types, nil pointers, composites) as the one element before the formatter - in a slice, in a struct, and as the
// preceding operand of Sprint. Each kind has its own formatting routine with its own save/restore of the flags.
func c14AfterKind(oi int, d Directive) string {
	if d.Verb == 'T' || d.Verb == 'p' {
		return ""
	}
	f, stars := d.Format()
	pred := c14Operands[oi]
	for name, mk := range map[string]func(st *fstate) interface{}{
		"Formatter":     func(st *fstate) interface{} { return recFormatter{st} },
		"SafeFormatter": func(st *fstate) interface{} { return recSafeFormatter{st} },
	} {
		run := func(arg interface{}) {
			recoverTo(func() { redact.Sprintf(f, append(append([]interface{}{}, stars...), arg)...) })
		}
		var alone, inSlice, inStruct fstate
		run([]interface{}{mk(&alone)})
		run([]interface{}{pred, mk(&inSlice)})
		run(c14Pair{pred, mk(&inStruct)})
		for _, in := range []struct {
			where string
			st    *fstate
		}{{"a slice", &inSlice}, {"a struct", &inStruct}} {
			if alone.Called != in.st.Called || (alone.Called && (alone.key() != in.st.key() || alone.Fmt != in.st.Fmt)) {
				return fmt.Sprintf("redact/%s: directive %s: formatter alone in a slice sees state %s (MakeFormat=%q); after the element %T(%v) in %s it sees %s (MakeFormat=%q)", name, d, alone.key(), alone.Fmt, pred, descVal(pred), in.where, in.st.key(), in.st.Fmt)
			}
		}
		if d.Verb == 'v' && d.Flags == 0 && d.Wid == 0 && d.Prec == 0 && d.FlagStr == "" {
			var a1, a2 fstate
			recoverTo(func() { redact.Sprint(mk(&a1)) })
			recoverTo(func() { redact.Sprint(pred, mk(&a2), 1) })
			if a1.Called != a2.Called || a1.key() != a2.key() || a1.Fmt != a2.Fmt {
				return fmt.Sprintf("redact/%s: Sprint(x) shows the formatter state %s (MakeFormat=%q); Sprint(%T(%v), x, 1) shows %s (MakeFormat=%q)", name, a1.key(), a1.Fmt, pred, descVal(pred), a2.key(), a2.Fmt)
			}
		}
	}
	return ""
}

func descVal(v interface{}) (s string) {
	defer func() {
		if recover() != nil {
			s = "?"
		}
	}()
	return fmt.Sprintf("%.40q", fmt.Sprintf("%v", v))
}

// c14BigNumber: one format string with a large literal width/precision; recorders under fmt and under redact.
func c14BigNumber(f string) string {
	var ref, a, b fstate
	fmt.Sprintf(f, recFormatter{&ref})
	recoverTo(func() { redact.Sprintf(f, recFormatter{&a}) })
	recoverTo(func() { redact.Sprintf(f, recSafeFormatter{&b}) })
	for _, g := range []struct {
		name string
		st   *fstate
	}{{"Formatter", &a}, {"SafeFormatter", &b}} {
		if g.st.Called != ref.Called || (ref.Called && (g.st.key() != ref.key() || g.st.Fmt != ref.Fmt)) {
			return fmt.Sprintf("format %q: a %s under redact sees state %s (MakeFormat=%q); a Formatter under fmt sees %s (MakeFormat=%q)", f, g.name, g.st.key(), g.st.Fmt, ref.key(), ref.Fmt)
		}
	}
	if ref.Called {
		// MakeFormat reproduces the directive: formatting the recorder again with what it returned shows the same state
		var again fstate
		fmt.Sprintf(ref.Fmt, recFormatter{&again})
		if again.key() != ref.key() {
			return fmt.Sprintf("format %q: MakeFormat returns %q, under which a Formatter sees %s instead of %s", f, ref.Fmt, again.key(), ref.key())
		}
	}
	return ""
}

// c14NestedPrint: a SafeFormat method reached under the directive d hands a recorder to the SafePrinter it was
// given - with Print (one operand, several operands) and with Printf under an inner directive. What the recorder
// sees is the bare %v for Print and the INNER directive for Printf; the outer directive does not leak in.
func c14NestedPrint(d Directive, how int) string {
	if d.Verb == 'T' || d.Verb == 'p' || d.Verb == 'w' {
		return ""
	}
	f, stars := d.Format()
	var got fstate
	inners := []string{"", "", "", "%v", "%+6.2d", "%#x"}
	for _, name := range []string{"Formatter", "SafeFormatter"} {
		var rec interface{} = recFormatter{&got}
		if name == "SafeFormatter" {
			rec = recSafeFormatter{&got}
		}
		got = fstate{}
		var before, after fstate
		outer := scriptedFn(func(p redact.SafePrinter) {
			before = capture(p, 'v')
			defer func() { after = capture(p, 'v') }()
			switch how {
			case 0:
				p.Print(rec)
			case 1:
				p.Print("a", rec)
			case 2:
				p.Print(rec, 1, "b")
			default:
				p.Printf(inners[how], rec)
			}
		})
		if pv, pan := recoverTo(func() { redact.Sprintf(f, append(append([]interface{}{}, stars...), outer)...) }); pan {
			return fmt.Sprintf("panic: %v", pv)
		}
		if !got.Called {
			continue // the outer verb does not dispatch to SafeFormat
		}
		// the directive state the OUTER method sees is the same after its nested call as before it (the nested
		// directives are applied to a state of their own)
		if before.key() != after.key() || before.Fmt != after.Fmt {
			return fmt.Sprintf("SafeFormat reached under %s: after its nested call (shape %d, operand a %s) the printer it was given reports state %s (MakeFormat=%q); before the call it reported %s (MakeFormat=%q)", d, how, name, after.key(), after.Fmt, before.key(), before.Fmt)
		}
		var want fstate
		ref := "%v"
		if how >= 3 {
			ref = inners[how]
		}
		wrec := recFormatter{&want}
		fmt.Sprintf(ref, wrec)
		if got.key() != want.key() {
			return fmt.Sprintf("SafeFormat reached under %s calls %s with a %s: it sees state %s (MakeFormat=%q), want the state of %q alone: %s", d, []string{"Print(x)", "Print(a, x)", "Print(x, 1, b)", "Printf(%v, x)", "Printf(%+6.2d, x)", "Printf(%#x, x)"}[how], name, got.key(), got.Fmt, ref, want.key())
		}
	}
	return ""
}

type fmtStringer struct{ out *string }

func (r fmtStringer) Format(s fmt.State, verb rune) { *r.out = fmt.FormatString(s, verb) }

// forwarder forwards with MakeFormat, like the wrappers do.
type forwarder struct{ x interface{} }

func (f forwarder) Format(s fmt.State, verb rune) {
	justV, format := redact.MakeFormat(s, verb)
	if justV {
		fmt.Fprint(s, f.x)
	} else {
		fmt.Fprintf(s, format, f.x)
	}
}

type namedInt int
type namedStr string

type (
	namedF32 float32
	namedF64 float64
	namedC64 complex64
	namedBS  []byte
)

// c14Operands: every basic kind with its zero value, its extremes and a value whose shortest rendering depends on
// the kind's own width (0.1 as float32 is not 0.1 as float64), plus named types of the kinds and a few composites.
var c14Operands = []interface{}{true, int(-42), int8(7), uint16(300), uint64(1 << 40), uintptr(0xbeef), float32(2.5), float64(-1234.5678), complex64(1 + 2i), complex128(-3.5 + 0.25i), "héllo w", []byte("by\xfftes"), rune('x'), namedInt(5), namedStr("nm"), nil, []int{1, 2}, struct {
	A int
	B string
}{1, "z"}, map[string]int{"k": 1},
	false, int(0), int64(math.MinInt64), int64(math.MaxInt64), int8(-128), int16(-1), int32(1 << 30), uint(0), uint8(255), uint32(math.MaxUint32), uint64(math.MaxUint64), uintptr(0),
	float32(0.1), float32(3.14), float32(-1e-7), float32(math.MaxFloat32), float32(math.SmallestNonzeroFloat32), float32(0), float32(math.Inf(1)),
	float64(0.1), float64(0), math.Copysign(0, -1), math.NaN(), math.Inf(-1), math.MaxFloat64, math.SmallestNonzeroFloat64, 1e21, 1e20, 123456789.0,
	complex64(complex(0.1, -0.3)), complex128(complex(0.1, math.Inf(1))), complex64(0),
	"", "a" + mStart + "b" + mEnd, "l1\nl2", "\xe2\x80", rune(0x10ffff), rune(-1), []byte{}, []byte(nil), [3]byte{1, 2, 3},
	namedF32(0.1), namedF64(0.1), namedC64(complex(0.1, 2)), namedBool(true), namedU8(200), namedBS("nb"), namedInt(0), namedStr(""),
	(*fmtT)(nil), (*strT)(nil), (*errT)(nil), (*goT)(nil), (*ptrStrT)(nil), &fmtT{"pf"}, []interface{}{(*fmtT)(nil), (*strT)(nil)},
	(*int)(nil), []interface{}{float32(0.1), nil, "s"}, [2]float32{0.1, 0.2}, map[float32]bool{0.1: true}, struct{ F float32 }{0.1}, &struct{ F float32 }{0.1},
}

func c14Wrappers(d Directive, vi int) string {
	switch d.Verb {
	case 'T', 'p', 'w':
		return ""
	}
	f, stars := d.Format()
	x := c14Operands[vi]
	mk := func(v interface{}) []interface{} { return append(append([]interface{}{}, stars...), v) }
	want := fmt.Sprintf(f, mk(x)...)
	if got := fmt.Sprintf(f, mk(redact.Safe(x))...); got != want {
		return fmt.Sprintf("fmt.Sprintf(%s, Safe(%#v)) = %q, direct %q", d, x, got, want)
	}
	if got := fmt.Sprintf(f, mk(redact.Unsafe(x))...); got != want {
		return fmt.Sprintf("fmt.Sprintf(%s, Unsafe(%#v)) = %q, direct %q", d, x, got, want)
	}
	if got := fmt.Sprintf(f, mk(forwarder{x})...); got != want {
		return fmt.Sprintf("fmt.Sprintf(%s, forwarder(%#v)) = %q, direct %q", d, x, got, want)
	}
	if got := fmt.Sprintf(f, mk(redact.Safe(redact.Unsafe(x)))...); got != want {
		return fmt.Sprintf("fmt.Sprintf(%s, Safe(Unsafe(%#v))) = %q, direct %q", d, x, got, want)
	}
	if d.Verb == 'v' && d.Flags == 0 && d.Wid == 0 && d.Prec == 0 {
		// the implicit %v of Sprint/Sprintln (with and without a neighbour: operand spacing looks at the operand type)
		for _, wr := range []interface{}{redact.Safe(x), redact.Unsafe(x), forwarder{x}} {
			if got, want := fmt.Sprint(wr), fmt.Sprint(x); got != want {
				return fmt.Sprintf("fmt.Sprint(%T(%#v)) = %q, direct %q", wr, x, got, want)
			}
			if got, want := fmt.Sprintln("a", wr, 1), fmt.Sprintln("a", x, 1); got != want {
				return fmt.Sprintf("fmt.Sprintln(\"a\", %T(%#v), 1) = %q, direct %q", wr, x, got, want)
			}
		}
	}
	// under redact's own printer: forwarding prints like the direct call (markers aside)
	rw := redact.Sprintf(f, mk(x)...).StripMarkers()
	if got := redact.Sprintf(f, mk(forwarder{x})...).StripMarkers(); got != rw {
		if !utf8.ValidString(rw) && strings.Replace(got, "?", "", -1) == strings.Replace(rw, "?", "", -1) {
			return "" // ill-formed UTF-8: the '?' guards after dangling bytes depend on envelope boundaries (outside the claim)
		}
		return fmt.Sprintf("redact.Sprintf(%s, forwarder(%#v)) = %q, direct %q", d, x, got, rw)
	}
	return ""
}

func checkC14(c *Ctx) {
	sp := fullDirectives()
	wide := wideDirectives()
	c.Section("C14/roundtrip-wide", map[string]interface{}{"widths": len(wide.Wids), "precisions": len(wide.Precs), "what": "widths/precisions congruent modulo 2^8 and 2^16 to smaller ones of the same space"}, wide.Size(), func(i int, w *Worker) {
		d := wide.Get(i)
		if d.Wid < 10 && d.Prec < 7 {
			return // covered by C14/roundtrip
		}
		w.Eval()
		if dt := c14RoundTrip(d); dt != "" {
			w.Fail("roundtrip", d, dt)
		}
		w.Seen(uint64(i))
	})
	c.Section("C14/roundtrip", map[string]interface{}{"flag_subsets": 32, "widths": len(widths), "precisions": len(precs), "verbs": len(sp.Verbs), "printers": "fmt State; redact printer via Formatter; redact printer via SafeFormatter"}, sp.Size(), func(i int, w *Worker) {
		d := sp.Get(i)
		w.Eval()
		if dt := c14RoundTrip(d); dt != "" {
			w.Fail("roundtrip", d, dt)
		}
		var st fstate
		f, stars := d.Format()
		fmt.Sprintf(f, append(stars, recFormatter{&st})...)
		w.SeenS(st.Fmt)
		if i%20011 == 3 {
			w.Sample(map[string]interface{}{"directive": d.String(), "MakeFormat": st.Fmt, "justV": st.JustV})
		}
	})
	// flags written in every ORDER and repeated (the product above writes them in one canonical order only)
	fo := flagOrderDirectives()
	c.Section("C14/flag-order", map[string]interface{}{"directives": len(fo), "flag_texts": "all ordered pairs and triples of the five flag characters", "checked": "state round trip per printer; wrappers and forwarder print like the operand"}, len(fo), func(i int, w *Worker) {
		d := fo[i]
		w.Eval()
		if dt := c14RoundTrip(d); dt != "" {
			w.Fail("roundtrip", d, dt)
		}
		for _, vi := range []int{1, 7, 10, 15} {
			w.Eval()
			pv, pan := recoverTo(func() {
				if dt := c14Wrappers(d, vi); dt != "" {
					w.Fail("wrappers", map[string]interface{}{"D": d, "V": vi}, dt)
				}
			})
			if pan {
				w.Fail("panic", map[string]interface{}{"D": d, "V": vi}, fmt.Sprint("panic: ", pv))
			}
		}
		w.Seen(uint64(i))
	})
	// literal widths and precisions up to the largest the format parser accepts (10000009; a star operand stops at
	// 10^6): the recorder prints nothing, so no padding is ever produced
	bigNums := []int{65535, 65536, 999999, 1000000, 1000001, 1234567, 9999999, 10000000, 10000009, 10000010}
	var bigFormats []string
	for _, n := range bigNums {
		for _, v := range "vdsfx" {
			bigFormats = append(bigFormats, fmt.Sprintf("%%%d%c", n, v), fmt.Sprintf("%%.%d%c", n, v), fmt.Sprintf("%%-%d.%d%c", n, n, v), fmt.Sprintf("%%12.%d%c", n, v), fmt.Sprintf("%%+0%d.3%c", n, v))
		}
	}
	c.Section("C14/large-numbers", map[string]interface{}{"numbers": bigNums, "formats": len(bigFormats), "checked": "the state and the MakeFormat result a Formatter/SafeFormatter sees under redact's printer equal those under fmt's"}, len(bigFormats), func(i int, w *Worker) {
		w.Eval()
		if dt := c14BigNumber(bigFormats[i]); dt != "" {
			w.Fail("large-number", map[string]interface{}{"F": bigFormats[i]}, dt)
		}
		w.Seen(uint64(i))
	})
	// the state seen by a formatter must not depend on the directive that precedes it in the same format
	firsts := []string{"%5d|", "%-12.3f|", "%+x|", "%#v|", "%08.2f|", "%*d|", "% d|", "%.7s|"}
	c.Section("C14/after-directive", map[string]interface{}{"preceding_directives": firsts, "directives": sp.Size(), "printers": "fmt, redact (Formatter and SafeFormatter entry)"}, sp.Size(), func(i int, w *Worker) {
		d := sp.Get(i)
		for fi := range firsts {
			w.Eval()
			if dt := c14After(firsts[fi], d); dt != "" {
				w.Fail("after-directive", map[string]interface{}{"First": fi, "D": d}, dt)
			}
		}
		w.Seen(uint64(i))
	})
	// ... nor on the elements that precede it inside the same operand
	c.Section("C14/after-element", map[string]interface{}{"directives": sp.Size(), "containers": len(c14Containers), "printers": "fmt, redact (Formatter and SafeFormatter entry)"}, sp.Size(), func(i int, w *Worker) {
		d := sp.Get(i)
		for ci := range c14Containers {
			w.Eval()
			if dt := c14AfterElement(ci, d); dt != "" {
				w.Fail("after-element", map[string]interface{}{"Container": ci, "D": d}, dt)
			}
		}
		w.Seen(uint64(i))
	})
	mid := sp
	if c.Quick() {
		mid = quickDirectives()
	}
	c.Section("C14/after-kind", map[string]interface{}{"directives": mid.Size(), "preceding_operands": len(c14Operands), "places": "slice element, struct field, Sprint operand", "recorders": "Formatter, SafeFormatter"}, mid.Size(), func(i int, w *Worker) {
		d := mid.Get(i)
		for oi := range c14Operands {
			w.Eval()
			if dt := c14AfterKind(oi, d); dt != "" {
				w.Fail("after-kind", map[string]interface{}{"Operand": oi, "D": d}, dt)
			}
		}
		w.Seen(uint64(i))
	})
	c.Section("C14/nested-print", map[string]interface{}{"directives": sp.Size(), "calls": "Print(x), Print(a, x), Print(x, 1, b), Printf(%v|%+6.2d|%#x, x)", "recorders": "Formatter, SafeFormatter"}, sp.Size(), func(i int, w *Worker) {
		d := sp.Get(i)
		for how := 0; how < 6; how++ {
			w.Eval()
			if dt := c14NestedPrint(d, how); dt != "" {
				w.Fail("nested-print", map[string]interface{}{"How": how, "D": d}, dt)
			}
		}
		w.Seen(uint64(i))
	})
	c.Section("C14/extra-operand", map[string]interface{}{"directives": sp.Size()}, sp.Size(), func(i int, w *Worker) {
		d := sp.Get(i)
		w.Eval()
		if dt := c14Extra(d); dt != "" {
			w.Fail("extra-operand", d, dt)
		}
		w.Seen(uint64(i))
	})
	ws := sp
	if c.Quick() {
		ws.Wids = []int{0, 1, 3, 6, 7}
		ws.Precs = []int{0, 1, 3, 5}
	}
	nv := len(c14Operands)
	c.Section("C14/wrappers", map[string]interface{}{"directives": ws.Size(), "operands": nv, "checked": "fmt.Sprintf(d,Safe(x)) == fmt.Sprintf(d,Unsafe(x)) == fmt.Sprintf(d,forwarder(x)) == fmt.Sprintf(d,x); forwarder under redact's printer"}, ws.Size(), func(i int, w *Worker) {
		d := ws.Get(i)
		for vi := 0; vi < nv; vi++ {
			w.Eval()
			pv, pan := recoverTo(func() {
				if dt := c14Wrappers(d, vi); dt != "" {
					w.Fail("wrappers", map[string]interface{}{"D": d, "V": vi}, dt)
				}
			})
			if pan {
				w.Fail("panic", map[string]interface{}{"D": d, "V": vi}, fmt.Sprint("panic: ", pv))
			}
		}
		f, stars := d.Format()
		w.SeenS(fmt.Sprintf(f, append(stars, redact.Safe(c14Operands[1]))...))
	})
}

package main

import (
	"encoding/json"
	"errors"
	"fmt"
	"reflect"
	"strings"

	redact "github.com/cockroachdb/redact"
)

func init() {
	checks["C15"] = checkC15
	rules["C15"] = "every format of <=k directive tokens over {%w with flags/width/index/star, %v, %d, %s, %%, literal} x every operand list of length 0-3 over 11 operand kinds, each after each of 6 preceding calls; operand consumed by each %w determined by running fmt on the same format with sentinel operands; distinct = distinct (text, error) results"
	replayers["C15/helper"] = func(c *Ctx, raw json.RawMessage) string {
		var cs c15Case
		json.Unmarshal(raw, &cs)
		_, d := c15Eval(cs, nil)
		return d
	}
}

var c15Tokens = []string{"%w", "%v", "%d", "%s", "%5w", "%-8w", "%+w", "%[1]w", "%[2]w", "%[3]w", "%*w", "%%", "lit ", "w"}

// c15BaseTokens: the tokens of the exhaustive program enumeration; c15Tokens continues with the whole
// %w directive grammar (32 flag subsets x width x precision x explicit index), used one directive at a time.
const c15BaseTokens = 14

func init() {
	replayers["C15/after-propagated-panic"] = func(c *Ctx, raw json.RawMessage) string {
		var cs struct{ Propagator, Probe int }
		json.Unmarshal(raw, &cs)
		return c15AfterProp(cs.Propagator, cs.Probe)
	}
	if len(c15Tokens) != c15BaseTokens {
		panic("c15BaseTokens out of date")
	}
	for fl := 0; fl < 32; fl++ {
		for _, wid := range []string{"", "5", "*"} {
			for _, prec := range []string{"", ".2"} {
				for _, idx := range []string{"", "[1]", "[2]"} {
					if wid == "*" && idx != "" {
						continue
					}
					c15Tokens = append(c15Tokens, "%"+Directive{Flags: fl}.flagString()+wid+prec+idx+"w")
				}
			}
		}
	}
}

type c15Case struct {
	Toks []int `json:"tokens"`
	Ops  []int `json:"operands"`
	Pre  int   `json:"preceding_call"`
}

var (
	c15e1 = errT{"e1" + mStart}
	c15e2 = &wrapErrT{"outer", errT{"inner\n"}}
	c15e9 = errors.New("e9")
)

type c15Operand struct {
	Name     string
	V        interface{}
	Err      error // the error it holds after unwrapping Safe/Unsafe (nil if none)
	Wrapped  bool  // wrapped in Safe/Unsafe (not comparable with fmt.Errorf)
	Dispatch bool  // a non-error operand that reaches method dispatch
}

var c15Operands = []c15Operand{
	{"err1", c15e1, c15e1, false, false},
	{"err2", c15e2, c15e2, false, false},
	{"nil", nil, nil, false, false},
	{"int", 1, nil, false, false},
	{"string", "s" + mEnd, nil, false, false},
	{"Safe(err1)", redact.Safe(c15e1), c15e1, true, false},
	{"Unsafe(err1)", redact.Unsafe(c15e1), c15e1, true, false},
	{"typed-nil error", (*errT)(nil), (*errT)(nil), false, false},
	// fmt >= 1.20 does not unwrap an error held in a reflect.Value, older fmt (and the fork) do: either answer accepted
	{"reflect.Value(err1)", reflect.ValueOf(c15e1), c15e1, true, false},
	{"struct", structT{1, "b", nil}, nil, false, true},
	{"Stringer", strT{"str"}, nil, false, true},
	{"panicking Stringer", panStrT{"boom"}, nil, false, true},
	{"SafeFormatter re-entering Printf(%w)", reSFw{}, nil, true, true},
	{"error+SafeFormatter re-entering Printf(%w)", reSFwErr{}, reSFwErr{}, true, false},
	{"error whose Error panics", panErrT{"eboom"}, panErrT{"eboom"}, false, false},
	// --- c15BaseOperands ends here; the operands below are used by C15/operand-kinds only: values that are not
	// errors themselves but CONTAIN errors or have a shape the printer treats on a path of its own
	{"[]interface{}{err1}", []interface{}{c15e1}, nil, false, true},
	{"[]interface{}{err1, 2}", []interface{}{c15e1, 2}, nil, false, true},
	{"[]error{err1}", []error{c15e1}, nil, false, true},
	{"[]string", []string{"a", "b"}, nil, false, true},
	{"map[string]interface{}{cause: err1}", map[string]interface{}{"cause": c15e1}, nil, false, true},
	{"map[string]string", map[string]string{"k": "v"}, nil, false, true},
	{"[1]error", [1]error{c15e1}, nil, false, true},
	{"struct{E error}", struct{ E error }{c15e1}, nil, false, true},
	{"*error", &c15errVar, nil, false, true},
	{"[]byte", []byte("by"), nil, false, true},
	{"func", func() {}, nil, false, true},
	{"Safe([]interface{}{err1})", redact.Safe([]interface{}{c15e1}), nil, true, true},
	{"Unsafe([]error{err1})", redact.Unsafe([]error{c15e1}), nil, true, true},
	{"RedactableString", redact.RedactableString("r" + mStart + "x" + mEnd), nil, true, true},
	{"error+Formatter", errFmtT{"ef"}, errFmtT{"ef"}, false, false},
	{"error+SafeMessager", errSM{"sm"}, errSM{"sm"}, true, false},
	{"errors.New", c15eNew, c15eNew, false, false},
	// operands of which NOTHING is printed with the verb (no element, no field): no bad-verb report can come from a
	// leaf, but it is a %w without an error all the same
	{"[]byte{} (empty)", []byte{}, nil, false, true},
	{"[]byte(nil)", []byte(nil), nil, false, true},
	{"reflect.Value{} (invalid)", reflect.Value{}, nil, true, true},
	{"reflect.Value of an unexported empty slice", reflect.ValueOf(c15Hidden{}).Field(0), nil, true, true},
	{"reflect.Value of an unexported empty struct", reflect.ValueOf(c15Hidden{}).Field(1), nil, true, true},
	{"[0]int{}", [0]int{}, nil, false, true},
	{"struct{}{}", struct{}{}, nil, false, true},
	{"Safe(nil)", redact.Safe(nil), nil, true, true},
	{"Unsafe(nil)", redact.Unsafe(nil), nil, true, true},
	{"Safe([]byte{})", redact.Safe([]byte{}), nil, true, true},
	{"Unsafe([0]int{})", redact.Unsafe([0]int{}), nil, true, true},
	{"Safe(RedactableString(\"\"))", redact.Safe(redact.RedactableString("")), nil, true, true},
	{"RedactableBytes{} (empty)", redact.RedactableBytes{}, nil, true, true},
	// errors whose redaction-specific method panics: the report names the directive as %v prints it
	{"error whose SafeFormat panics", errPanSF{"sf"}, errPanSF{"sf"}, true, false},
	{"error whose SafeMessage panics", errPanSM{"sm"}, errPanSM{"sm"}, true, false},
	{"Safe(error whose SafeFormat panics)", redact.Safe(errPanSF{"sf"}), errPanSF{"sf"}, true, false},
}

type c15Hidden struct {
	s []int
	e struct{}
}

type errPanSF struct{ s string }

func (e errPanSF) Error() string { return "errPanSF:" + e.s }
func (e errPanSF) SafeFormat(p redact.SafePrinter, _ rune) {
	p.SafeString("part")
	panic("sfboom" + mStart)
}

type errPanSM struct{ s string }

func (e errPanSM) Error() string       { return "errPanSM:" + e.s }
func (e errPanSM) SafeMessage() string { panic("smboom") }

const c15BaseOperands = 15

var (
	c15errVar error = c15e1
	c15eNew         = errors.New("plain")
)

// reSFw: a SafeFormatter whose SafeFormat method re-enters the printer with a %w of its own.
type reSFw struct{}

func (reSFw) SafeFormat(p redact.SafePrinter, _ rune) { p.Printf("in %w|%d", c15e2, 3) }

type reSFwErr struct{}

func (reSFwErr) Error() string                           { return "reSFwErr" }
func (reSFwErr) SafeFormat(p redact.SafePrinter, _ rune) { p.SafeString("E:"); p.Printf("%w", c15e2) }

type sentinel struct {
	i   int
	rec *[]string
}

func (s sentinel) Format(st fmt.State, verb rune) {
	*s.rec = append(*s.rec, fmt.Sprintf("%c%d", verb, s.i))
}

func isW(tok string) bool { return strings.HasSuffix(tok, "w") && tok != "w" }

func buildFormat(toks []int, asV map[int]bool, asZ int) string {
	var b strings.Builder
	for i, t := range toks {
		s := c15Tokens[t]
		if isW(s) {
			if i == asZ {
				s = s[:len(s)-1] + "Z"
			} else if asV[i] || asZ >= 0 {
				s = s[:len(s)-1] + "v"
			}
		}
		b.WriteString(s)
	}
	return b.String()
}

var c15Pre = []func(){
	func() {},
	func() { redact.HelperForErrorf("%w", c15e9) },
	func() { redact.Sprintf("%w", c15e9) },
	func() { redact.HelperForErrorf("%w %w", c15e9, c15e9) },
	func() { redact.Sprintf("%d", "x") },
	func() { redact.HelperForErrorf("%v %w", panStrT{"p"}, c15e9) },
}

// c15Eval returns (class, detail).
func c15Eval(cs c15Case, seen func(string)) (string, string) {
	args := make([]interface{}, len(cs.Ops))
	sargs := make([]interface{}, len(cs.Ops))
	var rec []string
	for i, o := range cs.Ops {
		args[i] = c15Operands[o].V
		if _, isInt := args[i].(int); isInt {
			sargs[i] = args[i]
		} else {
			sargs[i] = sentinel{i, &rec}
		}
	}
	// which operand does each %w consume? (fmt on the same format, w->Z for one, w->v for the others)
	var wpos []int
	for i, t := range cs.Toks {
		if isW(c15Tokens[t]) {
			wpos = append(wpos, i)
		}
	}
	consumed := map[int]int{}
	for _, wp := range wpos {
		rec = rec[:0]
		fmt.Sprintf(buildFormat(cs.Toks, nil, wp), sargs...)
		consumed[wp] = -1
		for _, r := range rec {
			if r[0] == 'Z' {
				fmt.Sscanf(r[1:], "%d", new(int))
				var k int
				fmt.Sscanf(r[1:], "%d", &k)
				consumed[wp] = k
			}
		}
	}
	usable := func(wp int) bool {
		k := consumed[wp]
		return k >= 0 && c15Operands[cs.Ops[k]].Err != nil
	}
	format := buildFormat(cs.Toks, nil, -1)
	c15Pre[cs.Pre]()
	var text redact.RedactableString
	var gotErr error
	if pv, pan := recoverTo(func() { text, gotErr = redact.HelperForErrorf(format, args...) }); pan {
		return "panic", fmt.Sprintf("HelperForErrorf(%q, %s) panics: %v", format, descArgs(args), pv)
	}
	if seen != nil {
		seen(fmt.Sprintf("%s|%v", text, gotErr != nil))
	}
	desc := fmt.Sprintf("HelperForErrorf(%q, %s) after preceding call #%d = (%q, %v)", format, descArgs(args), cs.Pre, text, gotErr)
	// expected error
	var wantErr error
	if len(wpos) == 1 && usable(wpos[0]) {
		wantErr = c15Operands[cs.Ops[consumed[wpos[0]]]].Err
	}
	// text: Sprintf with the set W of correctly used %w rendered as %v; |W| <= 1
	cands := []map[int]bool{{}}
	for _, wp := range wpos {
		if usable(wp) {
			cands = append(cands, map[int]bool{wp: true})
		}
	}
	// '#' on %w: the fork ignores it, %#v prints Go syntax and fmt.Errorf prints "&%!w(...)": no reference for
	// the text; the returned error is still checked
	sharpW := false
	for _, wp := range wpos {
		if strings.Contains(c15Tokens[cs.Toks[wp]], "#") {
			sharpW = true
		}
	}
	matched := -2
	var matchedW int = -1
	if sharpW {
		matched = -1
		if len(wpos) == 1 && usable(wpos[0]) {
			matchedW = wpos[0]
		}
	}
	for ci, S := range cands {
		if sharpW {
			break
		}
		if string(redact.Sprintf(buildFormat(cs.Toks, S, -1), args...)) == string(text) {
			matched = ci
			for k := range S {
				matchedW = k
			}
			if len(S) == 1 {
				break
			}
		}
	}
	if matched == -2 {
		return "text", desc + ": the text is not Sprintf's with at most one (correctly used) %w rendered like %v"
	}
	if len(wpos) == 1 && !sharpW {
		if usable(wpos[0]) && matchedW != wpos[0] && string(redact.Sprintf(buildFormat(cs.Toks, map[int]bool{wpos[0]: true}, -1), args...)) != string(text) {
			return "text", desc + ": a correctly used %w must render like %v"
		}
	}
	lenient := false
	if len(wpos) == 1 && consumed[wpos[0]] >= 0 && c15Operands[cs.Ops[consumed[wpos[0]]]].Name == "reflect.Value(err1)" {
		lenient = gotErr == nil
	}
	if !sameErr(gotErr, wantErr) && !lenient {
		if gotErr != nil && len(wpos) >= 2 {
			// K2: several %w, exactly one usable one captured, every other one failing before method dispatch
			others := true
			for _, wp := range wpos {
				if wp == matchedW {
					continue
				}
				k := consumed[wp]
				if k >= 0 {
					o := c15Operands[cs.Ops[k]]
					if o.Err != nil || o.Dispatch {
						others = false
					}
				}
			}
			if others && matchedW >= 0 && sameErr(gotErr, c15Operands[cs.Ops[consumed[matchedW]]].Err) {
				return "K2-capture-kept-on-nondispatch-misuse", desc + ": the format has several %w, so nil was expected"
			}
		}
		return "error", desc + fmt.Sprintf(": returned error %v, want %v", gotErr, wantErr)
	}
	// agreement with fmt.Errorf for <=1 %w and unwrapped operands
	if len(wpos) <= 1 && !sharpW {
		plain := true
		for _, wp := range wpos {
			// Go >= 1.20 treats the flags of %w like those of %v even when %w is misused (release drift)
			if strings.Contains(c15Tokens[cs.Toks[wp]], "+") && !usable(wp) {
				plain = false
			}
		}
		for _, o := range cs.Ops {
			if c15Operands[o].Wrapped {
				plain = false
			}
		}
		if plain {
			var fe error
			if _, pan := recoverTo(func() { fe = fmt.Errorf(format, args...) }); !pan {
				if got, want := string(Strip([]byte(text))), string(Esc([]byte(fe.Error()))); got != want {
					return "fmt-errorf-text", desc + fmt.Sprintf(": fmt.Errorf message is %q", want)
				}
				if !sameErr(gotErr, errors.Unwrap(fe)) {
					return "fmt-errorf-unwrap", desc + fmt.Sprintf(": errors.Unwrap(fmt.Errorf(...)) is %v", errors.Unwrap(fe))
				}
			}
		}
	}
	return "", ""
}

func c15Propagators() []struct {
	Name string
	Run  func()
} {
	return append([]struct {
		Name string
		Run  func()
	}{
		{"HelperForErrorf(a %w b, error whose Error double-panics)", func() { redact.HelperForErrorf("a %w b", panErrT{panPayT{"x"}}) }},
		{"HelperForErrorf(%w %v, err, Stringer that double-panics)", func() { redact.HelperForErrorf("%w %v", c15e1, panStrT{panPayT{"x"}}) }},
	}, c11Propagators...)
}

// c15AfterProp: probe i in a fresh state, then the propagating call, then probe i again: same answer.
func c15AfterProp(pi, i int) string {
	type res struct {
		text string
		err  error
	}
	run := func() (r res, pv interface{}, pan bool) {
		pv, pan = recoverTo(func() {
			t, e := redact.HelperForErrorf(c15AfterProbes[i].F, c15AfterProbes[i].Args...)
			r = res{string(t), e}
		})
		return
	}
	ref, _, _ := run()
	prop := c15Propagators()[pi]
	recoverTo(prop.Run)
	got, pv, pan := run()
	if pan {
		return fmt.Sprintf("after %s, HelperForErrorf(%q, ...) panics: %v", prop.Name, c15AfterProbes[i].F, pv)
	}
	if got.text != ref.text || !sameErr(got.err, ref.err) {
		return fmt.Sprintf("after %s, HelperForErrorf(%q, %s) = (%q, %s); before it (%q, %s)", prop.Name, c15AfterProbes[i].F, descArgs(c15AfterProbes[i].Args), got.text, errDesc(got.err), ref.text, errDesc(ref.err))
	}
	return ""
}

var c15AfterProbes = []struct {
	F    string
	Args []interface{}
}{
	{"no verb", nil},
	{"%v", []interface{}{1}},
	{"%v %d", []interface{}{c15e2, 2}},
	{"%w", []interface{}{c15e1}},
	{"x %w y", []interface{}{c15eNew}},
	{"%w %w", []interface{}{c15e1, c15e2}},
	{"%w", []interface{}{5}},
	{"%s", []interface{}{redact.Safe(c15e1)}},
}

// errDesc describes an error without trusting its methods (the error may be one whose Error panics)
func errDesc(e error) (d string) {
	if e == nil {
		return "<nil>"
	}
	defer func() {
		if recover() != nil {
			d = fmt.Sprintf("error of type %T (its Error method panics)", e)
		}
	}()
	return fmt.Sprintf("%T(%q)", e, e.Error())
}

func sameErr(a, b error) bool {
	if a == nil || b == nil {
		return a == nil && b == nil
	}
	return reflect.TypeOf(a) == reflect.TypeOf(b) && reflect.DeepEqual(a, b)
}

func checkC15(c *Ctx) {
	k := 3
	if !c.Quick() {
		k = 4
	}
	nT, nO := c15BaseTokens, c15BaseOperands
	fe := NewStrEnum(make([]string, nT), k)
	oe := NewStrEnum(make([]string, nO), 3)
	c.Section("C15/helper", map[string]interface{}{"tokens": c15Tokens, "max_tokens": k, "operand_kinds": nO, "max_operands": 3, "preceding_calls": len(c15Pre)}, fe.Total, func(i int, w *Worker) {
		toks := fe.Tokens(i)
		for oi := 0; oi < oe.Total; oi++ {
			ops := oe.Tokens(oi)
			pres := []int{(i + oi) % len(c15Pre)}
			if len(toks) <= 1 || (!c.Quick() && len(toks) <= 2) {
				pres = seq(len(c15Pre))
			}
			for _, pre := range pres {
				cs := c15Case{Toks: toks, Ops: ops, Pre: pre}
				w.Eval()
				if cl, d := c15Eval(cs, w.SeenS); d != "" {
					w.Fail(cl, cs, d)
				}
			}
		}
		if i%397 == 1 {
			f := buildFormat(toks, nil, -1)
			t, e := redact.HelperForErrorf(f, c15e1, c15e2)
			w.Sample(map[string]interface{}{"format": f, "operands": "err1, err2", "text": q(string(t)), "err": fmt.Sprint(e)})
		}
	})
	// the whole %w directive grammar, one directive at a time, alone and next to other directives
	nX := len(c15Tokens) - c15BaseTokens
	ctxs := [][]int{{-1}, {1, -1}, {-1, 2}, {12, -1, 12}, {-1, 0}, {0, -1}}
	oe2 := NewStrEnum(make([]string, nO), 2)
	c.Section("C15/w-grammar", map[string]interface{}{"w_directives": nX, "grammar": "32 flag subsets x width {none,5,*} x precision {none,.2} x index {none,[1],[2]}", "contexts": "alone, after %v, before %d, between literals, before/after a plain %w", "operand_lists": oe2.Total}, nX, func(i int, w *Worker) {
		for _, cx := range ctxs {
			toks := make([]int, len(cx))
			for j, t := range cx {
				if t < 0 {
					t = c15BaseTokens + i
				}
				toks[j] = t
			}
			for oi := 0; oi < oe2.Total; oi++ {
				cs := c15Case{Toks: toks, Ops: oe2.Tokens(oi), Pre: (i + oi) % len(c15Pre)}
				w.Eval()
				if cl, d := c15Eval(cs, w.SeenS); d != "" {
					w.Fail(cl, cs, d)
				}
			}
		}
	})
	replayers["C15/w-grammar"] = replayers["C15/helper"]
	// every operand kind at and around the %w position, in a small set of formats
	okFormats := [][]int{{0}, {12, 0}, {0, 1}, {1, 0}, {0, 0}, {4}, {6}, {7}, {8, 1}, {9, 3}, {0, 13}}
	nAll := len(c15Operands)
	c.Section("C15/operand-kinds", map[string]interface{}{"operands": nAll, "formats": len(okFormats), "operand_lists": "every ordered pair with at least one of the extended operands, and every single operand"}, nAll*(nAll+1), func(i int, w *Worker) {
		a, b := i/(nAll+1), i%(nAll+1)
		ops := []int{a}
		if b < nAll {
			ops = append(ops, b)
		}
		for _, toks := range okFormats {
			cs := c15Case{Toks: toks, Ops: ops, Pre: i % len(c15Pre)}
			w.Eval()
			if cl, d := c15Eval(cs, w.SeenS); d != "" {
				w.Fail(cl, cs, d)
			}
		}
	})
	replayers["C15/operand-kinds"] = replayers["C15/helper"]
	// after a call from which a panic PROPAGATED (the printer of that call is in an arbitrary state, and a change may
	// recycle it): the next HelperForErrorf calls answer as from a fresh process. One worker (same pool slot).
	c.Section("C15/after-propagated-panic", map[string]interface{}{"propagating_calls": len(c15Propagators()), "probes": len(c15AfterProbes), "workers": 1}, 1, func(_ int, w *Worker) {
		for pi := range c15Propagators() {
			for i := range c15AfterProbes {
				w.Eval()
				if d := c15AfterProp(pi, i); d != "" {
					w.Fail("after-propagated-panic", map[string]int{"Propagator": pi, "Probe": i}, d)
				}
			}
		}
		w.Seen(1)
		w.Seen(2)
	})
	c.Assume("the reference for argument consumption is this sandbox's fmt run on the same format with %w rewritten to %v/%Z and sentinel operands")
}

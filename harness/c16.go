package main

import (
	"bytes"
	"encoding/json"
	"errors"
	"fmt"
	"io"
	"unicode/utf8"

	redact "github.com/cockroachdb/redact"
)

func init() {
	checks["C16"] = checkC16
	rules["C16"] = "every argument list of <=3 operands and every (directive|format program, argument list) through the 5 print-style and 5 printf-style routes, the builder and nested routes also after 5 outer-buffer prefixes; Fprint/Fprintf against writers that accept, write short and fail; distinct = distinct texts"
	replayers["C16/print"] = func(c *Ctx, raw json.RawMessage) string {
		var cs struct{ Vs []int }
		json.Unmarshal(raw, &cs)
		u := universe()
		var args []interface{}
		for _, i := range cs.Vs {
			args = append(args, u[i].Mk(0))
		}
		return c16Routes("", false, args, nil)
	}
	replayers["C16/printf"] = func(c *Ctx, raw json.RawMessage) string {
		var cs struct {
			D Directive
			V int
		}
		json.Unmarshal(raw, &cs)
		f, stars := cs.D.Format()
		return c16Routes(f, true, append(stars, universe()[cs.V].Mk(0)), nil)
	}
	replayers["C16/programs"] = func(c *Ctx, raw json.RawMessage) string {
		var cs struct {
			F []byte
			A int
		}
		json.Unmarshal(raw, &cs)
		return c16Routes(string(cs.F), true, producerArgLists()[cs.A], nil)
	}
}

type tstWriter struct {
	mode   int // 0 accept, 1 short (0), 2 short (half), 3 fail
	writes [][]byte
}

var errWriter = errors.New("writer failed")

func (w *tstWriter) Write(p []byte) (int, error) {
	if w.mode == 4 {
		// a log sink that stamps each entry: it formats with the library BEFORE it consumes p
		_ = redact.Sprintf("stamp %d %s %v", len(p), "ZZZZZZZZZZZZZZZZZZZZZZZZ", redact.Safe("YYYYYYYYYYYYYYYY"))
		_ = redact.Sprint("more", 12345678, "XXXXXXXXXXXXXXXXXXXXXXXXXXXXXXXXXXXXXXXXXXXXXXXXXXXXXXXXXX")
	}
	w.writes = append(w.writes, append([]byte(nil), p...))
	switch w.mode {
	case 1:
		return 0, nil
	case 2:
		return len(p) / 2, nil
	case 3:
		return len(p) / 3, errWriter
	}
	return len(p), nil
}

// richWriter offers, besides Write, every optional method the io package (or a wrapper) might prefer over it:
// WriteString, WriteByte, WriteRune, ReadFrom. The contract is one call of Write; none of the others.
type richWriter struct {
	tstWriter
	other []string
}

func (w *richWriter) WriteString(s string) (int, error) {
	w.other = append(w.other, "WriteString")
	return len(s), nil
}
func (w *richWriter) WriteByte(b byte) error { w.other = append(w.other, "WriteByte"); return nil }
func (w *richWriter) WriteRune(r rune) (int, error) {
	w.other = append(w.other, "WriteRune")
	return 1, nil
}
func (w *richWriter) ReadFrom(r io.Reader) (int64, error) {
	w.other = append(w.other, "ReadFrom")
	return io.Copy(&w.tstWriter, r)
}

var c16Prefixes = [][]*Op{
	nil,
	{opPtr(mkOp(kSafeString, "s:"))},
	{opPtr(mkOp(kUnsafeString, "u"))},
	{opPtr(mkOp(kUnsafeString, "u\n"))},
	{opPtr(mkOp(kUnsafeString, "u\xe2\x80"))},
	{opPtr(mkOp(kSafeString, "s"+mStart)), opPtr(mkOp(kUnsafeString, ""))},
}

// c16Routes compares all routes for one call. isF selects the printf family.
func c16Routes(f string, isF bool, args []interface{}, seen func([]byte)) string {
	call := "Sprint"
	if isF {
		call = fmt.Sprintf("Sprintf(%q)", f)
	}
	desc := fmt.Sprintf("%s with %s", call, descArgs(args))
	var ref []byte
	if _, pan := recoverTo(func() {
		if isF {
			ref = []byte(redact.Sprintf(f, args...))
		} else {
			ref = []byte(redact.Sprint(args...))
		}
	}); pan {
		return "" // propagating panics are C04/C11's business
	}
	if seen != nil {
		seen(ref)
	}
	// F variants: one Write with the whole text, (n, err) passed through
	for mode := 0; mode <= 4; mode++ {
		w := &tstWriter{mode: mode}
		var n int
		var err error
		if isF {
			n, err = redact.Fprintf(w, f, args...)
		} else {
			n, err = redact.Fprint(w, args...)
		}
		if len(w.writes) != 1 {
			return fmt.Sprintf("%s: F variant made %d Write calls (%q), want exactly one", desc, len(w.writes), w.writes)
		}
		if !bytes.Equal(w.writes[0], ref) {
			return fmt.Sprintf("%s: F variant wrote %q, S variant returned %q", desc, w.writes[0], ref)
		}
		wn, werr := (&tstWriter{mode: mode}).Write(ref)
		if n != wn || err != werr {
			return fmt.Sprintf("%s: F variant returned (%d,%v), the writer returned (%d,%v)", desc, n, err, wn, werr)
		}
	}
	for mode := 0; mode <= 3; mode += 3 {
		w := &richWriter{tstWriter: tstWriter{mode: mode}}
		var n int
		var err error
		if isF {
			n, err = redact.Fprintf(w, f, args...)
		} else {
			n, err = redact.Fprint(w, args...)
		}
		wn, werr := (&tstWriter{mode: mode}).Write(ref)
		if len(w.other) != 0 || len(w.writes) != 1 || !bytes.Equal(w.writes[0], ref) || n != wn || err != werr {
			return fmt.Sprintf("%s: F variant on a writer that also has WriteString/WriteByte/WriteRune/ReadFrom: Write calls %q, other methods called %v, returned (%d,%v); want exactly one Write of %q and what it returns (%d,%v)", desc, w.writes, w.other, n, err, ref, wn, werr)
		}
	}
	// builder and nested routes, after each outer-buffer prefix
	for pi, pre := range c16Prefixes {
		var pb redact.StringBuilder
		for _, o := range pre {
			applySW(&pb, o)
		}
		want := Norm(append([]byte(pb.RedactableString()), ref...))
		routes := []struct {
			name string
			run  func() []byte
		}{
			{"StringBuilder", func() []byte {
				var b redact.StringBuilder
				for _, o := range pre {
					applySW(&b, o)
				}
				if isF {
					b.Printf(f, args...)
				} else {
					b.Print(args...)
				}
				return []byte(b.RedactableString())
			}},
			{"SafePrinter inside Sprintfn", func() []byte {
				return []byte(redact.Sprintfn(func(p redact.SafePrinter) {
					for _, o := range pre {
						applySW(p, o)
					}
					if isF {
						p.Printf(f, args...)
					} else {
						p.Print(args...)
					}
				}))
			}},
			{"SafePrinter inside SafeFormat", func() []byte {
				return []byte(redact.Sprint(scriptedFn(func(p redact.SafePrinter) {
					for _, o := range pre {
						applySW(p, o)
					}
					if isF {
						p.Printf(f, args...)
					} else {
						p.Print(args...)
					}
				})))
			}},
		}
		if pi == 0 && utf8.Valid(ref) {
			// the nested route must not depend on the directive under which the SafeFormat method was reached
			for _, outer := range []string{"%+v", "%#v", "%8v", "%-6.2v", "%+08.3v", "% x"} {
				outer := outer
				routes = append(routes, struct {
					name string
					run  func() []byte
				}{"SafePrinter inside SafeFormat reached under " + outer, func() []byte {
					return []byte(redact.Sprintf(outer, scriptedFn(func(p redact.SafePrinter) {
						if isF {
							p.Printf(f, args...)
						} else {
							p.Print(args...)
						}
					})))
				}}, struct {
					name string
					run  func() []byte
				}{"SafePrinter inside SafeFormat inside a slice printed with " + outer, func() []byte {
					o := redact.Sprintf(outer, []interface{}{scriptedFn(func(p redact.SafePrinter) {
						if isF {
							p.Printf(f, args...)
						} else {
							p.Print(args...)
						}
					})})
					b := []byte(o)
					// strip the slice punctuation ("[" "]" or "[]interface {}{" "}")
					if i := bytes.IndexAny(b, "[{"); i >= 0 {
						if bytes.HasPrefix(b, []byte("[]interface {}{")) {
							b = b[len("[]interface {}{"):]
						} else {
							b = b[1:]
						}
						b = b[:len(b)-1]
					}
					return b
				}})
			}
		}
		if pi == 0 && utf8.Valid(ref) {
			// ... nor on the ENTRY POINT through which the SafeFormat method was reached: whatever a top-level call
			// permits for its own format (%w under HelperForErrorf) or keeps in its printer is not inherited
			nested := func() redact.SafeFormatter {
				return scriptedFn(func(p redact.SafePrinter) {
					if isF {
						p.Printf(f, args...)
					} else {
						p.Print(args...)
					}
				})
			}
			type rt = struct {
				name string
				run  func() []byte
			}
			routes = append(routes,
				rt{"SafePrinter inside SafeFormat reached from HelperForErrorf(%v)", func() []byte {
					t, _ := redact.HelperForErrorf("%v", nested())
					return []byte(t)
				}},
				rt{"SafePrinter inside SafeFormat reached from HelperForErrorf(%w%v, err, sf)", func() []byte {
					t, _ := redact.HelperForErrorf("%w%v", safeErrT{"E"}, nested())
					return bytes.TrimPrefix([]byte(t), []byte("E<E>"))
				}},
				rt{"SafePrinter inside SafeFormat reached from Fprintf", func() []byte {
					var w tstWriter
					redact.Fprintf(&w, "%v", nested())
					return bytes.Join(w.writes, nil)
				}},
				rt{"SafePrinter inside SafeFormat reached from StringBuilder.Printf", func() []byte {
					var b redact.StringBuilder
					b.Printf("%v", nested())
					return []byte(b.RedactableString())
				}},
				rt{"SafePrinter inside SafeFormat reached from Sprintfn→Print", func() []byte {
					return []byte(redact.Sprintfn(func(p redact.SafePrinter) { p.Print(nested()) }))
				}},
				// ... nor on WHY the method was called: here its receiver is the value of a panic being reported
				rt{"SafePrinter inside SafeFormat of a panic value being reported", func() []byte {
					b := []byte(redact.Sprint(panStrT{nested()}))
					b = bytes.TrimPrefix(b, []byte("%!v(PANIC=String method: "))
					return bytes.TrimSuffix(b, []byte(")"))
				}},
				rt{"SafePrinter inside SafeFormat of a panic value reported inside a slice", func() []byte {
					b := []byte(redact.Sprintf("%v", []interface{}{panErrT{nested()}}))
					b = bytes.TrimPrefix(b, []byte("[%!v(PANIC=Error method: "))
					return bytes.TrimSuffix(b, []byte(")]"))
				}},
				rt{"SafePrinter inside SafeFormat reached from JoinTo(StringBuilder)", func() []byte {
					var b redact.StringBuilder
					redact.JoinTo(&b, ",", []redact.SafeFormatter{nested()})
					return []byte(b.RedactableString())
				}},
			)
		}
		for _, r := range routes {
			var got []byte
			if pv, pan := recoverTo(func() { got = r.run() }); pan {
				return fmt.Sprintf("%s: route %s panics (%v) although the S variant does not", desc, r.name, pv)
			}
			if !bytes.Equal(Norm(got), want) {
				return fmt.Sprintf("%s: route %s after prefix #%d gives %q, want prefix+S variant %q (up to merging of adjacent envelopes)", desc, r.name, pi, got, want)
			}
		}
	}
	return ""
}

func checkC16(c *Ctx) {
	u := universe()
	pv := c02PairVals()
	// index of pair values in the universe
	var pidx []int
	for _, p := range pv {
		for i := range u {
			if u[i].Name == p.Name {
				pidx = append(pidx, i)
			}
		}
	}
	var lists [][]int
	lists = append(lists, nil)
	for i := range u {
		lists = append(lists, []int{i})
	}
	for i := range u {
		for _, j := range pidx {
			lists = append(lists, []int{i, j}, []int{j, i})
		}
	}
	for _, a := range pidx {
		for _, b := range pidx {
			for _, d := range pidx {
				if c.Quick() && (a+b+d)%3 != 0 {
					continue
				}
				lists = append(lists, []int{a, b, d})
			}
		}
	}
	c.Section("C16/print", map[string]interface{}{"argument_lists": len(lists), "universe": len(u), "routes": "Sprint, Fprint x4 writers, StringBuilder.Print, Sprintfn→Print, SafeFormat→Print; the last three after 6 prefixes"}, len(lists), func(i int, w *Worker) {
		var args []interface{}
		for _, k := range lists[i] {
			args = append(args, u[k].Mk(0))
		}
		w.Eval()
		if d := c16Routes("", false, args, w.SeenB); d != "" {
			w.Fail("print-routes", map[string]interface{}{"Vs": lists[i]}, d)
		}
		if i%997 == 3 {
			recoverTo(func() {
				w.Sample(map[string]interface{}{"operands": descArgs(args), "Sprint": q(string(redact.Sprint(args...)))})
			})
		}
	})
	sp := midDirectives()
	if !c.Quick() {
		sp = quickDirectives()
	}
	c.Section("C16/printf", map[string]interface{}{"directives": sp.Size(), "values": len(u)}, sp.Size(), func(i int, w *Worker) {
		d := sp.Get(i)
		f, stars := d.Format()
		for vi := range u {
			w.Eval()
			if dt := c16Routes(f, true, append(append([]interface{}{}, stars...), u[vi].Mk(0)), w.SeenB); dt != "" {
				w.Fail("printf-routes", map[string]interface{}{"D": d, "V": vi}, dt)
			}
		}
	})
	k := 3
	en := NewStrEnum(fmtTokens, k)
	al := producerArgLists()
	c.Section("C16/programs", map[string]interface{}{"tokens": fmtTokens, "max_tokens": k, "arg_lists": len(al)}, en.Total, func(i int, w *Worker) {
		f := string(en.Get(i, nil))
		for ai := range al {
			w.Eval()
			if dt := c16Routes(f, true, al[ai], w.SeenB); dt != "" {
				w.Fail("program-routes", map[string]interface{}{"F": []byte(f), "A": ai, "quoted": q(f)}, dt)
			}
		}
	})
	c.Assume("the S variant is the reference text; builder and nested routes are compared up to merging of adjacent envelopes, as the property states")
}

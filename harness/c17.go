package main

import (
	"encoding/json"
	"errors"
	"fmt"
	"reflect"
	"regexp"
	"strings"
	"sync"

	redact "github.com/cockroachdb/redact"
)

func init() {
	replayers["C17/error-panic-values"] = func(c *Ctx, raw json.RawMessage) string {
		var cs struct {
			Payload, Method, Pos int
			Verb                 string
		}
		json.Unmarshal(raw, &cs)
		redact.RegisterRedactErrorFn(c17PayloadHook)
		defer redact.RegisterRedactErrorFn(nil)
		return c17EvalPayload(cs.Payload, cs.Method, cs.Pos, []rune(cs.Verb)[0])
	}
	replayers["C17/reentrant-hook"] = func(c *Ctx, raw json.RawMessage) string {
		var cs struct {
			Style, E, Pos int
			Verb          string
		}
		json.Unmarshal(raw, &cs)
		redact.RegisterRedactErrorFn(func(err error, p redact.SafePrinter, verb rune) { c17RenderRe(err, p, verb, cs.Style, false) })
		defer redact.RegisterRedactErrorFn(nil)
		return c17EvalRe(cs.Style, cs.E, cs.Pos, []rune(cs.Verb)[0], nil)
	}
	checks["C17"] = checkC17
	rules["C17"] = "three process-wide configurations (no hook, rendering hook, panicking hook) x 9 error values x 15 positions x the quick/full directive space; with a hook, a dispatched error must print exactly like an equivalent SafeFormatter proxy placed in the same position (same verb, safe/unsafe calls honoured), non-dispatch positions / Unsafe / SafeFormatter / SafeMessager errors must print as without a hook; distinct = distinct outputs"
	replayers["C17/hook"] = func(c *Ctx, raw json.RawMessage) string {
		var cs c17Case
		json.Unmarshal(raw, &cs)
		c17Build()
		no := c17Run(cs, 0)
		redact.RegisterRedactErrorFn(c17Hook)
		defer redact.RegisterRedactErrorFn(nil)
		_, d := c17EvalHook(cs, no, nil)
		return d
	}
	replayers["C17/hook-multi"] = func(c *Ctx, raw json.RawMessage) string {
		var cs struct {
			Pre, E, Pos int
			Verb        string
		}
		json.Unmarshal(raw, &cs)
		c17Build()
		redact.RegisterRedactErrorFn(c17Hook)
		defer redact.RegisterRedactErrorFn(nil)
		return c17EvalMulti(cs.Pre, cs.E, cs.Pos, rune(cs.Verb[0]), nil)
	}
	replayers["C17/surplus-operands"] = func(c *Ctx, raw json.RawMessage) string {
		var cs struct {
			F, E, Pos int
			Trailing  bool
		}
		json.Unmarshal(raw, &cs)
		c17Build()
		redact.RegisterRedactErrorFn(c17Hook)
		defer redact.RegisterRedactErrorFn(nil)
		return c17EvalSurplus(cs.F, cs.E, cs.Pos, cs.Trailing, nil)
	}
	replayers["C17/panicking-hook"] = func(c *Ctx, raw json.RawMessage) string {
		var cs c17Case
		json.Unmarshal(raw, &cs)
		c17Build()
		redact.RegisterRedactErrorFn(c17PanicHook)
		defer redact.RegisterRedactErrorFn(nil)
		return c17EvalPanic(cs, nil)
	}
}

type c17Case struct {
	D   Directive `json:"directive"`
	E   int       `json:"error_value"`
	Pos int       `json:"position"`
}

// --- error values -------------------------------------------------------------

type (
	nilOkErr struct{ s string }
	ptrErr   struct{ s string }
	errSF    struct{ s string }
	errSM    struct{ s string }
)

func (e *nilOkErr) Error() string {
	if e == nil {
		return "nil-receiver-ok"
	}
	return e.s
}
func (e *ptrErr) Error() string { return "ptr:" + e.s }
func (e errSF) Error() string   { return "errSF:" + e.s }
func (e errSF) SafeFormat(p redact.SafePrinter, verb rune) {
	p.SafeString("own-safeformat<")
	p.SafeRune(redact.SafeRune(verb))
	p.SafeString(">")
	p.UnsafeString(e.s)
}
func (e errSM) Error() string       { return "errSM:" + e.s }
func (e errSM) SafeMessage() string { return "own-safemessage" }

type (
	errnoT     int      // an error of integer kind (like syscall.Errno)
	strKindErr string   // an error of string kind
	sliceErr   []string // an error of slice kind
)

type errGo struct{ s string }

func (e errGo) Error() string    { return "errgo:" + e.s }
func (e errGo) GoString() string { return "errGo{" + e.s + "}" }

func (e errnoT) Error() string     { return fmt.Sprintf("errno %d", int(e)) }
func (e strKindErr) Error() string { return "strerr:" + string(e) }
func (e sliceErr) Error() string   { return "sliceerr:" + strings.Join(e, ",") }

type c17Err struct {
	Name   string
	V      error
	OwnFmt bool // SafeFormatter / SafeMessager: never reaches the hook
}

var c17Errs = []c17Err{
	{"plain", errT{"plain" + mStart + "\nx"}, false},
	{"wrapping", wrapErrT{"outer", errT{"inner"}}, false},
	{"nil receiver (tolerated)", (*nilOkErr)(nil), false},
	{"error+Stringer", strErrT{"se"}, false},
	{"error+Formatter", errFmtT{"ef"}, false},
	{"errors.New", errors.New("new"), false},
	{"pointer receiver", &ptrErr{"p"}, false},
	{"error+GoStringer", errGo{"g"}, false},
	{"integer-kind error", errnoT(2), false},
	{"string-kind error", strKindErr("sk"), false},
	{"slice-kind error", sliceErr{"a", "b"}, false},
	{"error+SafeFormatter", errSF{"sf"}, true},
	{"error+SafeMessager", errSM{"sm"}, true},
}

// proxy prints exactly what the hook prints for the error it stands for, but as a
// SafeFormatter (dispatched at the same place, before the hook).
type c17Proxy struct {
	text  string
	panic bool
}

func (p c17Proxy) Error() string { return p.text }
func (p c17Proxy) SafeFormat(sp redact.SafePrinter, verb rune) {
	c17Render(p.text, sp, verb, p.panic)
}

func c17Render(text string, p redact.SafePrinter, verb rune, pan bool) {
	p.SafeString("H<")
	p.SafeRune(redact.SafeRune(verb))
	p.SafeString(">")
	p.UnsafeString(text)
	if pan {
		panic("hook-boom " + text)
	}
	p.SafeString(";")
}

func c17Hook(err error, p redact.SafePrinter, verb rune)      { c17Render(err.Error(), p, verb, false) }
func c17PanicHook(err error, p redact.SafePrinter, verb rune) { c17Render(err.Error(), p, verb, true) }

// --- re-entrant hooks -----------------------------------------------------------
// A hook may hand other errors (the cause of the one it renders) back to the printer it was given; those are
// error values the printer formats through method dispatch, so the hook renders them too, at every depth.

var c17ChainErrs = []error{
	wrapErrT{"outer", errT{"inner" + mStart}},
	wrapErrT{"o", wrapErrT{"mid", errors.New("leaf\nx")}},
	wrapErrT{"o", &ptrErr{"p"}},
	wrapErrT{"o", errSF{"sf"}},
	wrapErrT{"o", wrapErrT{"mid", errSM{"sm"}}},
	errT{"no cause"},
}

var c17ReStyles = []string{"Printf(%v, cause)", "Print(cause)", "Printf(%+v|%s, cause, cause)", "Print(Safe(cause))", "Printf(%v, []error{cause})", "Print(Unsafe(cause))"}

func c17Own(err error) (string, error) {
	if w, ok := err.(wrapErrT); ok {
		return w.msg, w.inner
	}
	return err.Error(), nil
}

func c17RenderRe(err error, p redact.SafePrinter, verb rune, style int, proxy bool) {
	msg, cause := c17Own(err)
	p.SafeString("R<")
	p.SafeRune(redact.SafeRune(verb))
	p.SafeString(">")
	p.UnsafeString(msg)
	if cause != nil {
		var c interface{} = cause
		if proxy {
			if _, own := cause.(redact.SafeFormatter); !own {
				if _, own := cause.(redact.SafeMessager); !own {
					c = c17ProxyRe{cause, style}
				}
			}
		}
		p.SafeString(" <- ")
		switch style {
		case 0:
			p.Printf("%v", c)
		case 1:
			p.Print(c)
		case 2:
			p.Printf("%+v|%s", c, c)
		case 3:
			p.Print(redact.Safe(c))
		case 4:
			if ce, ok := c.(error); ok {
				p.Printf("%v", []error{ce})
			}
		default:
			// under Unsafe() the hook is bypassed: plain text of the real cause on both sides
			p.Print(redact.Unsafe(cause))
		}
	}
	p.SafeString(";")
}

type c17ProxyRe struct {
	e     error
	style int
}

func (p c17ProxyRe) Error() string { return p.e.Error() }
func (p c17ProxyRe) SafeFormat(sp redact.SafePrinter, verb rune) {
	c17RenderRe(p.e, sp, verb, p.style, true)
}

func c17EvalRe(style, e, pos int, verb rune, seen func(string)) string {
	if !c17Positions[pos].Dispatch || (verb == 'w' && pos != 0) {
		return ""
	}
	run := func(op interface{}) string {
		var out string
		pv, pan := recoverTo(func() {
			if verb == 'w' {
				s, _ := redact.HelperForErrorf("<%"+string(verb)+">", op)
				out = string(s)
			} else {
				out = string(redact.Sprintf("<%"+string(verb)+">", op))
			}
		})
		if pan {
			return fmt.Sprintf("PANIC ESCAPED: %v", pv)
		}
		return out
	}
	err := c17ChainErrs[e]
	got, want := run(c17Positions[pos].Mk(err)), run(c17Positions[pos].Mk(c17ProxyRe{err, style}))
	if seen != nil {
		seen(got)
	}
	if got != want {
		return fmt.Sprintf("hook that renders an error and hands its cause back to the printer with %s: %%%c of %q in position %q = %q, want %q (every error reached through the printer is rendered by the hook, as the equivalent nest of SafeFormatters prints)", c17ReStyles[style], verb, err.Error(), c17Positions[pos].Name, got, want)
	}
	return ""
}

// --- errors as panic values -------------------------------------------------------

var c17PanicPayloads = []struct {
	Name string
	V    interface{}
	Want string // what the hook prints for the payload (must appear in the panic report)
}{
	{"errors.New", errors.New("pl1"), "H<v>‹pl1›;"},
	{"wrapping error", wrapErrT{"po", errT{"pi"}}, "H<v>‹po: pi›;"},
	{"pointer-receiver error", &ptrErr{"pp"}, "H<v>‹ptr:pp›;"},
}

type c17PanStr struct{ pl interface{} }

func (p c17PanStr) String() string { panic(p.pl) }

type c17PanErr struct{ pl interface{} }

func (p c17PanErr) Error() string { panic(p.pl) }

type c17PanFmt struct{ pl interface{} }

func (p c17PanFmt) Format(fmt.State, rune) { panic(p.pl) }

type c17PanSF struct{ pl interface{} }

func (p c17PanSF) SafeFormat(redact.SafePrinter, rune) { panic(p.pl) }

// c17PanHookErr: an error for which c17PayloadHook itself panics with the payload
type c17PanHookErr struct{ pl interface{} }

func (p c17PanHookErr) Error() string { return "panhook" }

func c17PayloadHook(err error, p redact.SafePrinter, verb rune) {
	if e, ok := err.(c17PanHookErr); ok {
		p.SafeString("before:")
		panic(e.pl)
	}
	if e, ok := err.(c17PanErr); ok {
		_ = e.Error() // panics with the payload, inside the hook
	}
	c17Render(err.Error(), p, verb, false)
}

func c17EvalPayload(pl, method, pos int, verb rune) string {
	payload := c17PanicPayloads[pl]
	var op interface{}
	var e error
	switch method {
	case 0:
		op = c17PanStr{payload.V}
	case 1:
		e = c17PanErr{payload.V}
	case 2:
		op = c17PanFmt{payload.V}
	case 3:
		op = c17PanSF{payload.V}
	default:
		e = c17PanHookErr{payload.V}
	}
	var arg interface{}
	if e != nil {
		arg = c17Positions[pos].Mk(e)
	} else {
		if pos != 0 {
			return ""
		}
		arg = op
	}
	var out string
	if pv, pan := recoverTo(func() { out = string(redact.Sprintf("<%"+string(verb)+">", arg)) }); pan {
		return fmt.Sprintf("a method of the operand panics with the error %q (%s): the panic escaped: %v", payload.V, payload.Name, pv)
	}
	if !strings.Contains(out, "(PANIC=") {
		return fmt.Sprintf("a method of the operand (kind %d) panics with the error %q in position %q: %%%c gives %q: no PANIC report", method, payload.V, c17Positions[pos].Name, verb, out)
	}
	want := payload.Want
	if strings.HasPrefix(c17Positions[pos].Name, "Safe(") {
		want = strings.NewReplacer(mStart, "", mEnd, "").Replace(want)
	}
	if !strings.Contains(out, want) {
		return fmt.Sprintf("a method of the operand (kind %d: 0 String, 1 Error inside the hook, 2 Format, 3 SafeFormat, 4 the hook) panics with the error %q in position %q: %%%c gives %q: the report must contain the hook's rendering of that error, %q", method, payload.V, c17Positions[pos].Name, verb, out, want)
	}
	return ""
}

// --- positions ----------------------------------------------------------------

type c17Pos struct {
	Name     string
	Mk       func(e error) interface{}
	Dispatch bool
}

type c17ExpF struct{ E error }
type c17UnexpF struct{ e error }
type c17IfaceF struct{ I interface{} }
type c17Nested struct {
	L []c17ExpF
	M map[string]interface{}
}

var c17Positions = []c17Pos{
	{"top level", func(e error) interface{} { return e }, true},
	{"exported field", func(e error) interface{} { return c17ExpF{e} }, true},
	{"unexported field", func(e error) interface{} { return c17UnexpF{e} }, false},
	{"[]error", func(e error) interface{} { return []error{e, nil, e} }, true},
	{"[]interface{}", func(e error) interface{} { return []interface{}{e, 1} }, true},
	{"map value", func(e error) interface{} { return map[string]error{"k": e} }, true},
	{"interface field", func(e error) interface{} { return c17IfaceF{e} }, true},
	{"Safe(err)", func(e error) interface{} { return redact.Safe(e) }, true},
	{"Unsafe(err)", func(e error) interface{} { return redact.Unsafe(e) }, false},
	{"pointer to error variable", func(e error) interface{} { return &e }, false},
	{"reflect.Value", func(e error) interface{} { return reflect.ValueOf(&e).Elem() }, true},
	{"[1]error", func(e error) interface{} { return [1]error{e} }, true},
	{"nested slice/struct/map", func(e error) interface{} {
		return c17Nested{[]c17ExpF{{e}}, map[string]interface{}{"a": e}}
	}, true},
	{"pointer to struct", func(e error) interface{} { return &c17ExpF{e} }, true},
	{"Unsafe(struct{err})", func(e error) interface{} { return redact.Unsafe(c17ExpF{e}) }, false},
	// an element with a classification of its own BEFORE the error in the same container: whatever it switches on
	// or off (override, mode) must be back in place when the error is reached
	{"Unsafe([]interface{}{RedactableString, err})", func(e error) interface{} {
		return redact.Unsafe([]interface{}{redact.RedactableString("id"), e})
	}, false},
	{"Unsafe([]interface{}{Safe(1), RedactableBytes, err})", func(e error) interface{} {
		return redact.Unsafe([]interface{}{redact.Safe(1), redact.RedactableBytes("rb"), e})
	}, false},
	{"Unsafe(struct{SafeFormatter; err})", func(e error) interface{} {
		return redact.Unsafe(struct {
			S safeFmtT
			E error
		}{safeFmtT{"k", "v"}, e})
	}, false},
	{"Safe([]interface{}{RedactableString, err})", func(e error) interface{} {
		return redact.Safe([]interface{}{redact.RedactableString("id"), e})
	}, true},
	{"[]interface{}{RedactableString, err}", func(e error) interface{} { return []interface{}{redact.RedactableString("id"), e} }, true},
	{"[]interface{}{Safe(1), Unsafe(2), SafeValue, err}", func(e error) interface{} {
		return []interface{}{redact.Safe(1), redact.Unsafe(2), safeT("sv"), e}
	}, true},
	{"[]interface{}{Unsafe(err), err}", func(e error) interface{} { return []interface{}{redact.Unsafe(errT{"u"}), e} }, true},
	{"map{a: Unsafe(x), b: err}", func(e error) interface{} {
		return map[string]interface{}{"a": redact.Unsafe("x"), "b": e}
	}, true},
}

var (
	c17Once                        sync.Once
	c17Real, c17Prox, c17ProxPanic [][]interface{}
)

func c17Build() {
	c17Once.Do(func() {
		for _, e := range c17Errs {
			var r, p, pp []interface{}
			for _, pos := range c17Positions {
				r = append(r, pos.Mk(e.V))
				p = append(p, pos.Mk(c17Proxy{e.V.Error(), false}))
				pp = append(pp, pos.Mk(c17Proxy{e.V.Error(), true}))
			}
			c17Real = append(c17Real, r)
			c17Prox = append(c17Prox, p)
			c17ProxPanic = append(c17ProxPanic, pp)
		}
	})
}

// c17Run formats one case; kind 0 real operand, 1 proxy, 2 panicking proxy.
func c17Run(cs c17Case, kind int) string {
	f, stars := cs.D.Format()
	var op interface{}
	switch kind {
	case 0:
		op = c17Real[cs.E][cs.Pos]
	case 1:
		op = c17Prox[cs.E][cs.Pos]
	default:
		op = c17ProxPanic[cs.E][cs.Pos]
	}
	var out string
	pv, pan := recoverTo(func() {
		if cs.D.Verb == 'w' {
			s, _ := redact.HelperForErrorf("<"+f+">", append(append([]interface{}{}, stars...), op)...)
			out = string(s)
		} else {
			out = string(redact.Sprintf("<"+f+">", append(append([]interface{}{}, stars...), op)...))
		}
	})
	if pan {
		return fmt.Sprintf("PANIC ESCAPED: %v", pv)
	}
	return out
}

func c17Dispatches(cs c17Case) bool {
	if !c17Positions[cs.Pos].Dispatch || c17Errs[cs.E].OwnFmt {
		return false
	}
	if cs.D.Verb == 'T' || cs.D.Verb == 'p' {
		return false
	}
	return true
}

func c17Desc(cs c17Case) string {
	return fmt.Sprintf("%s, %s error in position %q", cs.D, c17Errs[cs.E].Name, c17Positions[cs.Pos].Name)
}

func c17EvalHook(cs c17Case, noHook string, seen func(string)) (string, string) {
	got := c17Run(cs, 0)
	if seen != nil {
		seen(got)
	}
	if strings.HasPrefix(got, "PANIC ESCAPED") {
		return "panic", c17Desc(cs) + ": " + got
	}
	if c17Dispatches(cs) {
		want := c17Run(cs, 1)
		if cs.D.Verb == 'w' && cs.Pos != 0 {
			return "", "" // %w on a non-error operand: bad verb, nothing dispatched (C15)
		}
		if cs.D.Verb == 'w' && got == want {
			// the hook is handed the verb the operand is formatted with: a correctly used %w is %v (C15), so the
			// text is the one %v gives (the proxy cannot tell: it is dispatched at the same place as the hook)
			dv := cs
			dv.D.Verb = 'v'
			if gv := c17Run(dv, 0); gv != got {
				return "hook-verb-under-%w", fmt.Sprintf("%s with a hook installed = %q, but with v in place of w %q: under a correctly used %%w the hook must see what it sees under %%v", c17Desc(cs), got, gv)
			}
		}
		if got != want {
			return "hook-rendering:" + c17Positions[cs.Pos].Name, fmt.Sprintf("%s with a hook installed = %q, want %q (the hook's rendering, exactly as an equivalent SafeFormatter prints there)", c17Desc(cs), got, want)
		}
		return "", ""
	}
	if got != noHook {
		return "hook-must-not-apply:" + c17Positions[cs.Pos].Name, fmt.Sprintf("%s with a hook installed = %q, but without a hook %q (no dispatch here: SafeFormatter/SafeMessager error, Unsafe(), unexported field, pointer, %%T/%%p)", c17Desc(cs), got, noHook)
	}
	if strings.HasPrefix(c17Positions[cs.Pos].Name, "Unsafe(") {
		if !allEnveloped([]byte(got[1 : len(got)-1])) {
			return "unsafe-not-enveloped", fmt.Sprintf("%s = %q: not fully enveloped", c17Desc(cs), got)
		}
	}
	return "", ""
}

func c17EvalPanic(cs c17Case, seen func(string)) string {
	if !c17Dispatches(cs) || (cs.D.Verb == 'w' && cs.Pos != 0) {
		return ""
	}
	got := c17Run(cs, 0)
	if seen != nil {
		seen(got)
	}
	if strings.HasPrefix(got, "PANIC ESCAPED") {
		return c17Desc(cs) + ": a panic in the hook escaped: " + got
	}
	if c17Errs[cs.E].Name == "nil receiver (tolerated)" {
		// as in fmt, a panic on a nil pointer receiver is reported as <nil>
		if !strings.Contains(got, "<nil>") {
			return fmt.Sprintf("%s with a panicking hook = %q: want the <nil> report for a nil receiver", c17Desc(cs), got)
		}
		return ""
	}
	want := strings.ReplaceAll(c17Run(cs, 2), "PANIC=SafeFormat method", "PANIC=SafeFormatter method")
	if got != want {
		return fmt.Sprintf("%s with a panicking hook = %q, want %q (contained like a panicking SafeFormat method)", c17Desc(cs), got, want)
	}
	if !strings.Contains(got, "(PANIC=") {
		return fmt.Sprintf("%s with a panicking hook = %q: no PANIC report", c17Desc(cs), got)
	}
	return ""
}

// what may precede the error operand in the same call: (format prefix, operands)
var c17Preceding = []struct {
	F    string
	Args []interface{}
}{
	{"", nil},
	{"%s: ", []interface{}{nil}},
	{"%d %v|", []interface{}{nil, nil}},
	{"%z-", []interface{}{1}},
	{"%s %d ", []interface{}{"str", 2}},
	{"%[1]x %[1]q ", []interface{}{nil}},
	{"%v ", []interface{}{panStrT{"boom"}}},
	{"%!", nil},
	{"%[9]d ", []interface{}{1}},
	{"%v ", []interface{}{redact.Safe(nil)}},
	{"%d ", []interface{}{redact.Unsafe(nil)}},
	{"%x ", []interface{}{[]interface{}{nil, 1}}},
	{"%5.1f ", []interface{}{2.5}},
}

func c17EvalMulti(pi, e, pos int, verb rune, seen func(string)) string {
	pre := c17Preceding[pi]
	if pre.F == "%[9]d " || pre.F == "%[1]x %[1]q " {
		// explicit indexes: keep the error operand addressed explicitly too
	}
	run := func(op interface{}) string {
		n := len(pre.Args) + 1
		f := pre.F + fmt.Sprintf("%%[%d]%c", n, verb) + " end"
		args := append(append([]interface{}{}, pre.Args...), op)
		var out string
		pv, pan := recoverTo(func() {
			if verb == 'w' {
				s, _ := redact.HelperForErrorf(f, args...)
				out = string(s)
			} else {
				out = string(redact.Sprintf(f, args...))
			}
		})
		if pan {
			return fmt.Sprintf("PANIC ESCAPED: %v", pv)
		}
		return out
	}
	cs := c17Case{D: Directive{Verb: verb}, E: e, Pos: pos}
	if !c17Dispatches(cs) || (verb == 'w' && pos != 0) {
		return ""
	}
	got, want := run(c17Real[e][pos]), run(c17Prox[e][pos])
	if seen != nil {
		seen(got)
	}
	if got != want {
		return fmt.Sprintf("format %q with operands %s then a %s error in position %q: with a hook installed = %q, want %q (the hook's rendering, as an equivalent SafeFormatter prints there)", pre.F+"%["+fmt.Sprint(len(pre.Args)+1)+"]"+string(verb)+" end", descArgs(pre.Args), c17Errs[e].Name, c17Positions[pos].Name, got, want)
	}
	return ""
}

// --- surplus operands: an error the format does not consume is reported as %!(EXTRA type=value); the value is
// printed by the same printer, so an error there - or reachable from there - is rendered by the hook like anywhere else.

var c17SurplusFormats = []struct {
	F    string
	Args []interface{}
}{
	{"request failed", nil},
	{"%d: done", []interface{}{1}},
	{"%s %s.", []interface{}{"a", redact.Safe("b")}},
	{"", nil},
	{"%v|%[1]v", []interface{}{2}},
}

var c17ExtraTypeRe = regexp.MustCompile(`(EXTRA |, )[^=(), ]+=`)

func c17EvalSurplus(fi, e, pos int, trailing bool, seen func(string)) string {
	sf := c17SurplusFormats[fi]
	cs := c17Case{D: Directive{Verb: 'v'}, E: e, Pos: pos}
	if !c17Dispatches(cs) {
		return ""
	}
	run := func(op interface{}) string {
		args := append(append([]interface{}{}, sf.Args...), op)
		if trailing {
			args = append(args, 7)
		}
		var out string
		if pv, pan := recoverTo(func() { out = string(redact.Sprintf(sf.F, args...)) }); pan {
			return fmt.Sprintf("PANIC ESCAPED: %v", pv)
		}
		// the report names the operand's type: the stand-in has another one
		return c17ExtraTypeRe.ReplaceAllString(out, "${1}T=")
	}
	got, want := run(c17Real[e][pos]), run(c17Prox[e][pos])
	if seen != nil {
		seen(got)
	}
	if got != want {
		return fmt.Sprintf("format %q with operands %s and then a SURPLUS %s error in position %q (trailing surplus int: %v): with a hook installed = %q, want %q (type names normalised; the hook's rendering, as an equivalent SafeFormatter prints there)", sf.F, descArgs(sf.Args), c17Errs[e].Name, c17Positions[pos].Name, trailing, got, want)
	}
	return ""
}

func checkC17(c *Ctx) {
	c17Build()
	sp := quickDirectives()
	if !c.Quick() {
		sp = fullDirectives()
		sp.Wids = []int{0, 1, 3, 6, 7}
		sp.Precs = []int{0, 1, 3, 5}
	}
	nE, nP := len(c17Errs), len(c17Positions)
	per := nE * nP
	// configuration 1: no hook (reference for the non-dispatch cases)
	redact.RegisterRedactErrorFn(nil)
	noHook := make([]string, sp.Size()*per)
	c.Section("C17/no-hook", map[string]interface{}{"directives": sp.Size(), "errors": nE, "positions": nP}, sp.Size(), func(i int, w *Worker) {
		d := sp.Get(i)
		for e := 0; e < nE; e++ {
			for p := 0; p < nP; p++ {
				w.Eval()
				cs := c17Case{D: d, E: e, Pos: p}
				o := c17Run(cs, 0)
				noHook[i*per+e*nP+p] = o
				w.SeenS(o)
				if strings.HasPrefix(o, "PANIC ESCAPED") {
					w.Fail("panic", cs, c17Desc(cs)+": "+o)
				}
				if strings.Contains(o, "H<") {
					w.Fail("hook-output-without-hook", cs, c17Desc(cs)+" without a hook prints "+o)
				}
			}
		}
	})
	// configuration 2: rendering hook
	redact.RegisterRedactErrorFn(c17Hook)
	c.Section("C17/hook", map[string]interface{}{"directives": sp.Size(), "errors": nE, "positions": nP}, sp.Size(), func(i int, w *Worker) {
		d := sp.Get(i)
		for e := 0; e < nE; e++ {
			for p := 0; p < nP; p++ {
				w.Eval()
				cs := c17Case{D: d, E: e, Pos: p}
				if cl, dt := c17EvalHook(cs, noHook[i*per+e*nP+p], w.SeenS); dt != "" {
					w.Fail(cl, cs, dt)
				}
			}
		}
		if i%601 == 0 {
			cs := c17Case{D: d, E: i % nE, Pos: (i / 7) % nP}
			w.Sample(map[string]interface{}{"case": c17Desc(cs), "with_hook": q(c17Run(cs, 0)), "without_hook": q(noHook[i*per+cs.E*nP+cs.Pos])})
		}
	})
	// several operands in one call: what precedes the error operand must not matter
	c.Section("C17/hook-multi", map[string]interface{}{"preceding": len(c17Preceding), "errors": nE, "positions": nP, "verbs": "vsdxqwcUb"}, len(c17Preceding)*nE, func(i int, w *Worker) {
		pi, e := i/nE, i%nE
		for p := 0; p < nP; p++ {
			for _, verb := range "vsdxqwcUb" {
				w.Eval()
				if dt := c17EvalMulti(pi, e, p, verb, w.SeenS); dt != "" {
					w.Fail("hook-multi", map[string]interface{}{"Pre": pi, "E": e, "Pos": p, "Verb": string(verb)}, dt)
				}
			}
		}
	})
	c.Section("C17/surplus-operands", map[string]interface{}{"formats": len(c17SurplusFormats), "errors": nE, "positions": nP, "shapes": "error last; error followed by another surplus operand"}, len(c17SurplusFormats)*nE, func(i int, w *Worker) {
		fi, e := i/nE, i%nE
		for p := 0; p < nP; p++ {
			for _, tr := range []bool{false, true} {
				w.Eval()
				if dt := c17EvalSurplus(fi, e, p, tr, w.SeenS); dt != "" {
					w.Fail("surplus-operand", map[string]interface{}{"F": fi, "E": e, "Pos": p, "Trailing": tr}, dt)
				}
			}
		}
	})
	// configuration 2b: hooks that re-enter the printer with the cause of the error they render
	for style := range c17ReStyles {
		style := style
		redact.RegisterRedactErrorFn(func(err error, p redact.SafePrinter, verb rune) { c17RenderRe(err, p, verb, style, false) })
		nC := len(c17ChainErrs)
		c.Section(fmt.Sprintf("C17/reentrant-hook/%d", style), map[string]interface{}{"hook": c17ReStyles[style], "error_chains": nC, "positions": nP, "verbs": "vsdxqw"}, nC*nP, func(i int, w *Worker) {
			for _, verb := range "vsdxqw" {
				w.Eval()
				if dt := c17EvalRe(style, i/nP, i%nP, verb, w.SeenS); dt != "" {
					w.Fail("reentrant-hook", map[string]interface{}{"Style": style, "E": i / nP, "Pos": i % nP, "Verb": string(verb)}, dt)
				}
			}
		})
	}
	// configuration 2c: an error that reaches the printer as the VALUE of a recovered panic (raised by a formatting
	// method or by the hook itself) is an error value the printer formats through method dispatch: the hook renders it
	redact.RegisterRedactErrorFn(c17PayloadHook)
	c.Section("C17/error-panic-values", map[string]interface{}{"panicking_methods": "String, Error, Format, SafeFormat, the hook itself", "payloads": "errors.New, wrapping error, error in a slice", "positions": nP, "verbs": "vs"}, len(c17PanicPayloads)*5, func(i int, w *Worker) {
		pl, m := i/5, i%5
		for pos := 0; pos < nP; pos++ {
			if !c17Positions[pos].Dispatch {
				continue
			}
			for _, verb := range "vs" {
				w.Eval()
				if dt := c17EvalPayload(pl, m, pos, verb); dt != "" {
					w.Fail("error-panic-value", map[string]interface{}{"Payload": pl, "Method": m, "Pos": pos, "Verb": string(verb)}, dt)
				}
			}
		}
		w.Seen(uint64(i))
	})
	// configuration 3: panicking hook
	redact.RegisterRedactErrorFn(c17PanicHook)
	c.Section("C17/panicking-hook", map[string]interface{}{"directives": sp.Size(), "errors": nE, "positions": nP}, sp.Size(), func(i int, w *Worker) {
		d := sp.Get(i)
		for e := 0; e < nE; e++ {
			for p := 0; p < nP; p++ {
				w.Eval()
				cs := c17Case{D: d, E: e, Pos: p}
				if dt := c17EvalPanic(cs, w.SeenS); dt != "" {
					w.Fail("panicking-hook", cs, dt)
				}
			}
		}
	})
	redact.RegisterRedactErrorFn(nil)
	c.Assume("configurations are process-wide; they are explored one after the other in this process (sections are sequential, the hook is cleared through the public API)")
}

package main

import (
	"encoding/json"
	"fmt"
	"hash/maphash"
	"os"
	"path/filepath"
	"runtime"
	"runtime/debug"
	"sort"
	"strconv"
	"strings"
	"sync"
	"sync/atomic"
	"time"
)

// ---------------------------------------------------------------------------
// Run context, sections, evidence
// ---------------------------------------------------------------------------

type Violation struct {
	Section string      `json:"section"`
	Class   string      `json:"class"`
	Case    interface{} `json:"case"`
	Detail  string      `json:"detail"`
}

type Section struct {
	Name         string                 `json:"name"`
	Evaluations  int64                  `json:"evaluations"`
	Distinct     int64                  `json:"distinct_outcomes"`
	Exhaustive   bool                   `json:"exhaustive"`
	Bounds       map[string]interface{} `json:"bounds,omitempty"`
	SkippedPanic int64                  `json:"skipped_panic,omitempty"`
	Extra        map[string]interface{} `json:"extra,omitempty"`
	WallS        float64                `json:"wall_s"`
	Samples      []interface{}          `json:"-"`
}

type Ctx struct {
	Prop     string
	Tier     string
	Seed     int64
	Start    time.Time
	Deadline time.Time
	Replay   string

	mu          sync.Mutex
	sections    []*Section
	violations  []Violation
	violClass   map[string]int
	known       map[string]int // known-finding class -> count
	knownEx     map[string]string
	kf          []KnownFinding
	assumptions []string
	states      int64
	transitions int64
	notes       []string
}

var hashSeed = maphash.MakeSeed()

// hangLimit: how long one case may run before it is reported as a hang.
var hangLimit = 5 * time.Minute

// memLimit: heap size beyond which a run is stopped and reported (cases allocate kilobytes).
var memLimit uint64 = 24 << 30

func hashBytes(b []byte) uint64  { return maphash.Bytes(hashSeed, b) }
func hashString(s string) uint64 { return maphash.String(hashSeed, s) }

func (c *Ctx) Quick() bool { return c.Tier != "thorough" }

func (c *Ctx) TimeUp() bool { return time.Now().After(c.Deadline) }

func (c *Ctx) Assume(s string) { c.assumptions = append(c.assumptions, s) }
func (c *Ctx) Note(s string)   { c.mu.Lock(); c.notes = append(c.notes, s); c.mu.Unlock() }

// Worker carries per-goroutine counters, merged at the end of a section.
type Worker struct {
	ret      *retained
	curIdx   int64 // index being evaluated (watchdog)
	curSince int64 // unix nanos
	c        *Ctx
	sec      *Section
	evals    int64
	panics   int64
	distinct map[uint64]struct{}
	samples  []interface{}
	id       int
	extra    map[string]int64
	stop     *int32
}

const maxDistinctPerWorker = 1 << 20

func (w *Worker) Seen(h uint64) {
	if len(w.distinct) < maxDistinctPerWorker {
		w.distinct[h] = struct{}{}
	}
}
func (w *Worker) SeenS(s string)          { w.Seen(hashString(s)) }
func (w *Worker) SeenB(b []byte)          { w.Seen(hashBytes(b)) }
func (w *Worker) Count(k string, n int64) { w.extra[k] += n }
func (w *Worker) Sample(x interface{}) {
	if len(w.samples) < 3 {
		w.samples = append(w.samples, x)
	}
}
func (w *Worker) Eval() { w.evals++ }

// Retained returns the worker's store of results handed out by the library (aliasing oracle).
func (w *Worker) Retained() *retained {
	if w.ret == nil {
		w.ret = &retained{}
	}
	return w.ret
}
func (w *Worker) Stopped() bool { return atomic.LoadInt32(w.stop) != 0 }

// Fail records a violation (or a known finding). cas must be JSON-serialisable
// and sufficient to re-run the case through the section's replay function.
func (w *Worker) Fail(class string, cas interface{}, detail string) {
	c := w.c
	c.mu.Lock()
	defer c.mu.Unlock()
	for _, k := range c.kf {
		if k.Status == "known" && k.Property == c.Prop && k.Class == class {
			c.known[class]++
			if _, ok := c.knownEx[class]; !ok {
				c.knownEx[class] = detail
			}
			return
		}
	}
	c.violClass[class]++
	if c.violClass[class] > 3 || len(c.violations) >= 40 {
		return
	}
	if len(detail) > 3000 {
		detail = detail[:1400] + fmt.Sprintf(" …[%d bytes omitted; the replay file has the complete case]… ", len(detail)-2800) + detail[len(detail)-1400:]
	}
	c.violations = append(c.violations, Violation{Section: w.sec.Name, Class: class, Case: cas, Detail: detail})
	if len(c.violations) >= 40 {
		atomic.StoreInt32(w.stop, 1)
	}
}

// Section runs fn over indices [0,n) on all cores. fn must be safe for
// concurrent use on distinct indices. Returns false if the deadline cut it.
func (c *Ctx) Section(name string, bounds map[string]interface{}, n int, fn func(i int, w *Worker)) *Section {
	sec := &Section{Name: name, Bounds: bounds, Exhaustive: true, Extra: map[string]interface{}{}}
	t0 := time.Now()
	nw := runtime.GOMAXPROCS(0)
	if nw > n {
		nw = n
	}
	if nw < 1 {
		nw = 1
	}
	var next int64
	var stop int32
	var wg sync.WaitGroup
	ws := make([]*Worker, nw)
	var cut int32
	// watchdog: a single case that runs for minutes is a hang inside the library (cases take microseconds)
	wdDone := make(chan struct{})
	defer close(wdDone)
	go func() {
		t := time.NewTicker(time.Second)
		defer t.Stop()
		for {
			select {
			case <-wdDone:
				return
			case <-t.C:
				var ms runtime.MemStats
				runtime.ReadMemStats(&ms)
				if ms.HeapAlloc > memLimit {
					var idxs []int64
					for _, w := range ws {
						if w != nil {
							idxs = append(idxs, atomic.LoadInt64(&w.curIdx))
						}
					}
					ws[0].Fail("memory-blowup", map[string]interface{}{"section_indexes_in_flight": idxs}, fmt.Sprintf("heap grew beyond %d GiB while evaluating cases %v of %s: the library does not terminate / allocates without bound on one of them", memLimit>>30, idxs, name))
					sec.Exhaustive = false
					c.mu.Lock()
					c.sections = append(c.sections, sec)
					c.mu.Unlock()
					os.Exit(c.Finish(rules[c.Prop]))
				}
				for _, w := range ws {
					if w == nil {
						continue
					}
					since := atomic.LoadInt64(&w.curSince)
					if since != 0 && time.Since(time.Unix(0, since)) > hangLimit {
						idx := atomic.LoadInt64(&w.curIdx)
						w.Fail("hang", map[string]interface{}{"section_index": idx}, fmt.Sprintf("case #%d of %s has been running for more than %v: the library does not terminate on it", idx, name, hangLimit))
						sec.Exhaustive = false
						c.mu.Lock()
						c.sections = append(c.sections, sec)
						c.mu.Unlock()
						os.Exit(c.Finish(rules[c.Prop]))
					}
				}
			}
		}
	}()
	for k := 0; k < nw; k++ {
		w := &Worker{c: c, sec: sec, distinct: map[uint64]struct{}{}, id: k, extra: map[string]int64{}, stop: &stop}
		ws[k] = w
		wg.Add(1)
		go func() {
			defer wg.Done()
			for {
				i := int(atomic.AddInt64(&next, 1) - 1)
				if i >= n {
					return
				}
				if atomic.LoadInt32(&stop) != 0 {
					atomic.StoreInt32(&cut, 1)
					return
				}
				if c.TimeUp() {
					atomic.StoreInt32(&cut, 1)
					return
				}
				atomic.StoreInt64(&w.curIdx, int64(i))
				atomic.StoreInt64(&w.curSince, time.Now().UnixNano())
				func() {
					defer atomic.StoreInt64(&w.curSince, 0)
					defer func() {
						if r := recover(); r != nil {
							st := string(debug.Stack())
							if k := strings.Index(st, "panic("); k >= 0 {
								st = st[k:]
							}
							if len(st) > 900 {
								st = st[:900]
							}
							w.Fail("unexpected-panic", map[string]interface{}{"section_index": i}, fmt.Sprintf("library panicked while evaluating case #%d of %s: %v\n%s", i, name, r, st))
						}
					}()
					fn(i, w)
				}()
			}
		}()
	}
	wg.Wait()
	all := map[uint64]struct{}{}
	extra := map[string]int64{}
	for _, w := range ws {
		sec.Evaluations += w.evals
		sec.SkippedPanic += w.panics
		for h := range w.distinct {
			all[h] = struct{}{}
		}
		for k, v := range w.extra {
			extra[k] += v
		}
		if len(sec.Samples) < 3 {
			sec.Samples = append(sec.Samples, w.samples...)
		}
	}
	if len(sec.Samples) > 3 {
		sec.Samples = sec.Samples[:3]
	}
	for k, v := range extra {
		sec.Extra[k] = v
	}
	sec.Distinct = int64(len(all))
	if cut != 0 {
		sec.Exhaustive = false
	}
	sec.WallS = time.Since(t0).Seconds()
	c.mu.Lock()
	c.sections = append(c.sections, sec)
	c.mu.Unlock()
	fmt.Fprintf(os.Stderr, "[%s %s] section %-28s evals=%d distinct=%d exhaustive=%v %.1fs\n", c.Prop, c.Tier, name, sec.Evaluations, sec.Distinct, sec.Exhaustive, sec.WallS)
	return sec
}

// ---------------------------------------------------------------------------
// Known findings
// ---------------------------------------------------------------------------

type KnownFinding struct {
	Status   string // "known" or "fixed"
	Property string
	Class    string
	Text     string
}

func loadKnownFindings(path string) []KnownFinding {
	b, err := os.ReadFile(path)
	if err != nil {
		return nil
	}
	var r []KnownFinding
	for _, ln := range strings.Split(string(b), "\n") {
		ln = strings.TrimSpace(ln)
		if ln == "" || strings.HasPrefix(ln, "#") {
			continue
		}
		var k KnownFinding
		switch {
		case strings.HasPrefix(ln, "known:"):
			k.Status = "known"
			ln = strings.TrimSpace(ln[len("known:"):])
		case strings.HasPrefix(ln, "fixed:"):
			k.Status = "fixed"
			ln = strings.TrimSpace(ln[len("fixed:"):])
		default:
			continue
		}
		for _, f := range strings.Fields(ln) {
			if strings.HasPrefix(f, "property=") {
				k.Property = f[len("property="):]
			} else if strings.HasPrefix(f, "class=") {
				k.Class = f[len("class="):]
			}
		}
		k.Text = ln
		r = append(r, k)
	}
	return r
}

// ---------------------------------------------------------------------------
// Finish: evidence + verdict
// ---------------------------------------------------------------------------

func home() string {
	if h := os.Getenv("VERIF_HOME"); h != "" {
		return h
	}
	return "/verif"
}

func (c *Ctx) Finish(rule string) int {
	var evals, distinct, skipped int64
	exhaustive := true
	var samples []interface{}
	secs := []interface{}{}
	for _, s := range c.sections {
		evals += s.Evaluations
		distinct += s.Distinct
		skipped += s.SkippedPanic
		if !s.Exhaustive {
			exhaustive = false
		}
		for _, x := range s.Samples {
			if len(samples) < 12 {
				samples = append(samples, map[string]interface{}{"section": s.Name, "case": x})
			}
		}
		secs = append(secs, s)
	}
	if len(samples) == 0 {
		samples = append(samples, "no case was explored")
	}
	states := distinct + c.states
	trans := evals + c.transitions
	cov := map[string]interface{}{
		"states":                        states,
		"transitions":                   trans,
		"traces_validated_against_impl": evals,
		"evaluations":                   evals,
		"distinct_nontrivial":           distinct,
		"rule":                          rule,
		"samples":                       samples,
		"exhaustive":                    exhaustive,
		"sections":                      secs,
		"skipped_panic":                 skipped,
		"known_findings_matched":        c.known,
		"anchors_found":                 os.Getenv("VERIF_ANCHORS"),
		"notes":                         c.notes,
		"go_version":                    runtime.Version(),
	}
	if c.assumptions == nil {
		c.assumptions = []string{}
	}
	if c.notes == nil {
		c.notes = []string{}
	}
	ev := map[string]interface{}{
		"property_id": c.Prop,
		"tier":        c.Tier,
		"seed":        c.Seed,
		"level":       "model_checking",
		"coverage":    cov,
		"assumptions": c.assumptions,
		"wall_s":      time.Since(c.Start).Seconds(),
		"violations":  len(c.violations),
	}
	if c.Replay == "" && c.Prop != "SELFTEST" && c.Prop != "C12RACE" && os.Getenv("VERIF_NO_EVIDENCE") == "" {
		os.MkdirAll(filepath.Join(home(), "evidence"), 0o755)
		b, _ := json.MarshalIndent(ev, "", " ")
		tmp := filepath.Join(home(), "evidence", c.Prop+".json.tmp")
		os.WriteFile(tmp, b, 0o644)
		os.Rename(tmp, filepath.Join(home(), "evidence", c.Prop+".json"))
	}
	// known findings
	var ks []string
	for k := range c.known {
		ks = append(ks, k)
	}
	sort.Strings(ks)
	for _, k := range ks {
		fmt.Printf("KNOWN-FINDING: property=%s class=%s count=%d e.g. %s\n", c.Prop, k, c.known[k], oneLine(c.knownEx[k]))
	}
	if len(c.violations) == 0 {
		fmt.Printf("OK property=%s tier=%s evaluations=%d distinct=%d exhaustive=%v wall=%.1fs\n", c.Prop, c.Tier, evals, distinct, exhaustive, time.Since(c.Start).Seconds())
		return 0
	}
	{
		var cls []string
		for k, n := range c.violClass {
			cls = append(cls, fmt.Sprintf("%s=%d", k, n))
		}
		sort.Strings(cls)
		fmt.Fprintf(os.Stderr, "[%s] violation classes: %s\n", c.Prop, strings.Join(cls, " "))
	}
	dir := filepath.Join(home(), "replays", c.Prop)
	os.MkdirAll(dir, 0o755)
	for i, v := range c.violations {
		p := filepath.Join(dir, fmt.Sprintf("%s-%s-%d.json", c.Tier, sanitize(v.Class), i))
		if c.Replay != "" {
			p = c.Replay
		} else {
			b, _ := json.MarshalIndent(v, "", " ")
			os.WriteFile(p, b, 0o644)
		}
		fmt.Printf("VIOLATION property=%s replay=%s\n", c.Prop, p)
		fmt.Printf("  section=%s class=%s (%d of this class) %s\n", v.Section, v.Class, c.violClass[v.Class], oneLine(v.Detail))
	}
	return 1
}

func sanitize(s string) string {
	var b strings.Builder
	for _, r := range s {
		if (r >= 'a' && r <= 'z') || (r >= 'A' && r <= 'Z') || (r >= '0' && r <= '9') || r == '-' || r == '_' {
			b.WriteRune(r)
		} else {
			b.WriteByte('_')
		}
	}
	if b.Len() > 40 {
		return b.String()[:40]
	}
	return b.String()
}

func oneLine(s string) string {
	s = strings.ReplaceAll(s, "\n", "\\n")
	if len(s) > 600 {
		s = s[:600] + "…"
	}
	return s
}

func q(s string) string { return strconv.Quote(s) }

// recoverTo runs f and returns the recovered panic value (nil if none).
func recoverTo(f func()) (pv interface{}, panicked bool) {
	defer func() {
		if r := recover(); r != nil {
			pv, panicked = r, true
		}
	}()
	f()
	return nil, false
}

func timeNow() time.Time            { return time.Now() }
func timeSince(t time.Time) float64 { return time.Since(t).Seconds() }

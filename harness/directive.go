package main

import (
	"strconv"
	"strings"
)

// Directive is one formatting directive of the finite product named by C14/C04.
type Directive struct {
	Flags int  `json:"flags"` // bit0 '+', bit1 '-', bit2 '#', bit3 ' ', bit4 '0'
	Wid   int  `json:"wid"`   // index into widths
	Prec  int  `json:"prec"`  // index into precs
	Verb  rune `json:"verb"`
	// FlagStr, when not empty, is the flag text written as is (flags in another ORDER than "+-# 0", or repeated)
	FlagStr string `json:"flag_text,omitempty"`
}

const flagChars = "+-# 0"

type widSpec struct {
	Text string
	Star bool
	Arg  int
}

var widths = []widSpec{{"", false, 0}, {"0", false, 0}, {"1", false, 0}, {"7", false, 0}, {"12", false, 0}, {"1000", false, 0}, {"*", true, 9}, {"*", true, -6}, {"70", false, 0}, {"263", false, 0}, {"65543", false, 0}, {"*", true, 65545}}
var precs = []widSpec{{"", false, 0}, {".", false, 0}, {".0", false, 0}, {".1", false, 0}, {".5", false, 0}, {".*", true, 2}, {".257", false, 0}, {".65537", false, 0}}

var letterVerbs = func() []rune {
	var r []rune
	for c := 'a'; c <= 'z'; c++ {
		r = append(r, c)
	}
	for c := 'A'; c <= 'Z'; c++ {
		r = append(r, c)
	}
	return r
}()
var oddVerbs = []rune{'!', '日', 'é', '‹', 0xfffd, '_'}

func (d Directive) flagString() string {
	if d.FlagStr != "" {
		return d.FlagStr
	}
	var b strings.Builder
	for i := 0; i < 5; i++ {
		if d.Flags&(1<<i) != 0 {
			b.WriteByte(flagChars[i])
		}
	}
	return b.String()
}

// Format returns the directive text and the star operands that precede the value operand.
func (d Directive) Format() (string, []interface{}) {
	var args []interface{}
	var b strings.Builder
	b.WriteByte('%')
	b.WriteString(d.flagString())
	w := widths[d.Wid]
	b.WriteString(w.Text)
	if w.Star {
		args = append(args, w.Arg)
	}
	p := precs[d.Prec]
	b.WriteString(p.Text)
	if p.Star {
		args = append(args, p.Arg)
	}
	b.WriteRune(d.Verb)
	return b.String(), args
}

func (d Directive) String() string {
	f, a := d.Format()
	s := strconv.Quote(f)
	for _, x := range a {
		s += "," + strconv.Itoa(x.(int))
	}
	return s
}

// zeroMeetsMinus: the directive combines the zero flag with a minus flag
// (written, or produced by a negative star width) - semantics changed across Go releases.
func (d Directive) zeroMeetsMinus() bool {
	if d.FlagStr != "" {
		return strings.Contains(d.FlagStr, "0") && (strings.Contains(d.FlagStr, "-") || (widths[d.Wid].Star && widths[d.Wid].Arg < 0))
	}
	if d.Flags&16 == 0 && widths[d.Wid].Text != "0" { // a width written "0" is parsed as the zero flag
		return false
	}
	return d.Flags&2 != 0 || (widths[d.Wid].Star && widths[d.Wid].Arg < 0)
}

// DirectiveSpace enumerates flags x widths x precs x verbs.
type DirectiveSpace struct {
	FlagSets []int
	Wids     []int
	Precs    []int
	Verbs    []rune
}

func (s DirectiveSpace) Size() int {
	return len(s.FlagSets) * len(s.Wids) * len(s.Precs) * len(s.Verbs)
}
func (s DirectiveSpace) Get(i int) Directive {
	v := i % len(s.Verbs)
	i /= len(s.Verbs)
	p := i % len(s.Precs)
	i /= len(s.Precs)
	w := i % len(s.Wids)
	i /= len(s.Wids)
	return Directive{Flags: s.FlagSets[i], Wid: s.Wids[w], Prec: s.Precs[p], Verb: s.Verbs[v]}
}

func seq(n int) []int {
	r := make([]int, n)
	for i := range r {
		r[i] = i
	}
	return r
}

// fullDirectives: everything except the very wide widths/precisions (indexes 10.. / 7..), which only C14's state
// round-trip uses (they exist to expose truncation of width/precision to 8 or 16 bits; printing them is expensive).
func fullDirectives() DirectiveSpace {
	return DirectiveSpace{FlagSets: seq(32), Wids: seq(10), Precs: seq(7), Verbs: append(append([]rune{}, letterVerbs...), oddVerbs...)}
}

// quickDirectives: all 32 flag subsets x {none,7,*=-6} x {none,.1,.*} x 30 verbs.
func quickDirectives() DirectiveSpace {
	return DirectiveSpace{FlagSets: seq(32), Wids: []int{0, 3, 7, 8}, Precs: []int{0, 3}, Verbs: []rune("vdsxXqtbcoOUeEfFgGTpwzZk!日‹")}
}

// midDirectives: a smaller space for expensive products.
func midDirectives() DirectiveSpace {
	return DirectiveSpace{FlagSets: []int{0, 1, 2, 4, 8, 16, 5, 20, 9}, Wids: []int{0, 3}, Precs: []int{0, 3}, Verbs: []rune("vdsxXqtbcoUefgTpwz")}
}

// indexedFormats: formats of 2 (and 3) directives with explicit argument indexes,
// widths (literal, star, indexed star), precisions and verbs that leave the fast
// path - the space in which per-directive parser state (argument number, reordered,
// goodArgNum, afterIndex) carried from one directive to the next shows.
func indexedFormats(quick bool) []string {
	idx := []string{"", "[1]", "[2]", "[3]", "[9]", "[x]"}
	flags := []string{"", "-"}
	wid := []string{"", "5", "*", "[2]*"}
	prec := []string{"", ".2", ".*"}
	verbs := []string{"d", "s", "v", "X", "T"}
	if quick {
		flags = []string{""}
		prec = []string{"", ".*"}
		verbs = []string{"d", "s", "X"}
	}
	var one []string
	for _, i := range idx {
		for _, f := range flags {
			for _, w := range wid {
				for _, p := range prec {
					for _, v := range verbs {
						one = append(one, "%"+f+i+w+p+v)
					}
				}
			}
		}
	}
	var out []string
	for _, a := range one {
		for _, b := range one {
			out = append(out, a+" "+b)
		}
	}
	var small []string
	for _, i := range []string{"", "[1]", "[3]", "[9]"} {
		for _, w := range []string{"", "*"} {
			for _, v := range []string{"d", "s", "X"} {
				small = append(small, "%"+i+w+v)
			}
		}
	}
	for _, a := range small {
		for _, b := range small {
			for _, c := range small {
				out = append(out, a+"|"+b+"|"+c)
			}
		}
	}
	return out
}

// wideDirectives: the full space plus widths/precisions congruent to smaller ones modulo 2^8 and 2^16.
func wideDirectives() DirectiveSpace {
	d := fullDirectives()
	d.Wids, d.Precs = seq(len(widths)), seq(len(precs))
	return d
}

// numberFormats: every place of a directive where the parser reads a NUMBER (argument index, width, precision,
// indexed star), with the numbers at which parsers slip: zero, leading zeros, signs, blanks, empty, and the
// neighbours of the 10^6 / 2^31 / 2^63 / 2^64 limits.
func numberFormats() []string {
	nums := []string{"0", "00", "01", "-1", "+1", " 1", "1 ", "", "1000000", "1000001", "2147483647", "2147483648", "9223372036854775807", "9223372036854775808", "18446744073709551615", "18446744073709551616", "99999999999999999999"}
	var out []string
	for _, n := range nums {
		for _, v := range []string{"d", "s", "v"} {
			out = append(out,
				"%["+n+"]"+v, "%["+n+"]*"+v, "%.["+n+"]*"+v, "%[1]"+v+" %["+n+"]"+v, "%["+n+"]"+v+"%"+v,
				"%["+n+"]*[1]"+v, "%[2]*["+n+"]"+v, "x%["+n+"]", "%["+n)
			if n != "" && n[0] != ' ' && n[0] != '-' && n[0] != '+' && len(n) < 8 {
				out = append(out, "%"+n+v, "%."+n+v, "%-"+n+"."+n+v)
			}
		}
	}
	return out
}

// flagOrderDirectives: every ordered pair and triple of flag characters (orders other than the canonical one, and
// repetitions), with and without a width, for a few verbs. Flags set from the text so that capture/compare works.
func flagOrderDirectives() []Directive {
	var texts []string
	for _, a := range flagChars {
		for _, b := range flagChars {
			texts = append(texts, string([]rune{a, b}))
			for _, c := range flagChars {
				texts = append(texts, string([]rune{a, b, c}))
			}
		}
	}
	var out []Directive
	for _, t := range texts {
		fl := 0
		for i, c := range flagChars {
			if strings.ContainsRune(t, c) {
				fl |= 1 << i
			}
		}
		for _, w := range []int{0, 3, 6, 7} {
			for _, p := range []int{0, 3} {
				for _, v := range "dvsxfq" {
					out = append(out, Directive{Flags: fl, Wid: w, Prec: p, Verb: v, FlagStr: t})
				}
			}
		}
	}
	return out
}

package main

// StrEnum enumerates all strings of 0..maxLen tokens over an alphabet of byte strings.
type StrEnum struct {
	Alpha  [][]byte
	MaxLen int
	offs   []int // offs[k] = index of first string of length k
	Total  int
}

func NewStrEnum(alpha []string, maxLen int) *StrEnum {
	e := &StrEnum{MaxLen: maxLen}
	for _, a := range alpha {
		e.Alpha = append(e.Alpha, []byte(a))
	}
	n := 1
	for k := 0; k <= maxLen; k++ {
		e.offs = append(e.offs, e.Total)
		e.Total += n
		n *= len(alpha)
	}
	return e
}

// Get appends string number i to dst[:0] and returns it together with the token indexes.
func (e *StrEnum) Get(i int, dst []byte) []byte {
	k := 0
	for k+1 < len(e.offs) && e.offs[k+1] <= i {
		k++
	}
	r := i - e.offs[k]
	dst = dst[:0]
	// most significant token first
	var digs [32]int
	for j := k - 1; j >= 0; j-- {
		digs[j] = r % len(e.Alpha)
		r /= len(e.Alpha)
	}
	for j := 0; j < k; j++ {
		dst = append(dst, e.Alpha[digs[j]]...)
	}
	return dst
}

// Tokens returns the token indexes of string number i.
func (e *StrEnum) Tokens(i int) []int {
	k := 0
	for k+1 < len(e.offs) && e.offs[k+1] <= i {
		k++
	}
	r := i - e.offs[k]
	d := make([]int, k)
	for j := k - 1; j >= 0; j-- {
		d[j] = r % len(e.Alpha)
		r /= len(e.Alpha)
	}
	return d
}

var alphaB = []string{"a", " ", "\n", "?", "\xe2", "\x80", "\xb9", "\xba"}

// pow returns b^e.
func ipow(b, e int) int {
	r := 1
	for ; e > 0; e-- {
		r *= b
	}
	return r
}

package main

import (
	"encoding/json"
	"fmt"
	"os"
	"path/filepath"
	"strconv"
	"strings"
	"time"
)

type checkFn func(c *Ctx)

var checks = map[string]checkFn{}
var rules = map[string]string{}

// replayers: section name -> function re-running one encoded case; returns detail ("" = passes).
var replayers = map[string]func(c *Ctx, raw json.RawMessage) string{}

func main() {
	if len(os.Args) < 2 {
		fmt.Fprintln(os.Stderr, "usage: verifh <Cxx> <quick|thorough> [--replay file]")
		os.Exit(2)
	}
	prop := os.Args[1]
	tier := "quick"
	if len(os.Args) > 2 {
		tier = os.Args[2]
	}
	if t := os.Getenv("VERIF_TIER"); t != "" && len(os.Args) <= 2 {
		tier = t
	}
	if prop == "worker" { // internal sub-process entry
		os.Exit(workerMain(os.Args[2:]))
	}
	c := &Ctx{Prop: prop, Tier: tier, Start: time.Now(), violClass: map[string]int{}, known: map[string]int{}, knownEx: map[string]string{}}
	if s := os.Getenv("VERIF_SEED"); s != "" {
		c.Seed, _ = strconv.ParseInt(s, 10, 64)
	}
	budget := 150 * time.Second
	if tier == "thorough" {
		budget = 25 * time.Minute
	}
	if s := os.Getenv("VERIF_BUDGET_S"); s != "" {
		if n, err := strconv.Atoi(s); err == nil {
			budget = time.Duration(n) * time.Second
		}
	}
	c.Deadline = c.Start.Add(budget)
	if s := os.Getenv("VERIF_HANG_S"); s != "" {
		if n, err := strconv.Atoi(s); err == nil {
			hangLimit = time.Duration(n) * time.Second
		}
	}
	if s := os.Getenv("VERIF_MEM_GIB"); s != "" {
		if n, err := strconv.Atoi(s); err == nil {
			memLimit = uint64(n) << 30
		}
	}
	c.kf = loadKnownFindings(filepath.Join(home(), "KNOWN_FINDINGS.txt"))
	for i := 3; i < len(os.Args); i++ {
		if os.Args[i] == "--replay" && i+1 < len(os.Args) {
			c.Replay = os.Args[i+1]
		}
	}
	fn, ok := checks[prop]
	if !ok {
		fmt.Fprintf(os.Stderr, "unknown property %q\n", prop)
		os.Exit(2)
	}
	if c.Replay != "" {
		os.Exit(doReplay(c))
	}
	fn(c)
	os.Exit(c.Finish(rules[prop]))
}

func doReplay(c *Ctx) int {
	b, err := os.ReadFile(c.Replay)
	if err != nil {
		fmt.Fprintln(os.Stderr, err)
		return 2
	}
	var v struct {
		Section string          `json:"section"`
		Class   string          `json:"class"`
		Case    json.RawMessage `json:"case"`
		Detail  string          `json:"detail"`
	}
	if err := json.Unmarshal(b, &v); err != nil {
		fmt.Fprintln(os.Stderr, err)
		return 2
	}
	rp, ok := findReplayer(v.Section)
	if !ok {
		fmt.Printf("no replayer for section %q; recorded detail:\n%s\n", v.Section, v.Detail)
		return 2
	}
	d1 := rp(c, v.Case)
	d2 := rp(c, v.Case)
	if d1 != d2 {
		fmt.Printf("REPLAY-NONDETERMINISTIC property=%s\n first: %s\nsecond: %s\n", c.Prop, d1, d2)
		return 2
	}
	if d1 == "" {
		fmt.Printf("REPLAY-PASSES property=%s section=%s (the case no longer fails on this tree)\n", c.Prop, v.Section)
		return 0
	}
	fmt.Printf("VIOLATION property=%s replay=%s\n  section=%s class=%s\n  %s\n", c.Prop, c.Replay, v.Section, v.Class, d1)
	return 1
}

func workerMain(args []string) int {
	if len(args) >= 2 && args[0] == "C12ISO" {
		var i int
		fmt.Sscan(args[1], &i)
		return c12IsoRef(i)
	}
	if len(args) >= 6 && args[0] == "C12" {
		return c12Worker(args[1:])
	}
	return 2
}

func init() {
	checks["SELFTEST"] = func(c *Ctx) {
		switch os.Getenv("VERIF_SELFTEST") {
		case "hang":
			c.Section("SELFTEST/hang", nil, 4, func(i int, w *Worker) {
				if i == 2 {
					select {}
				}
			})
		case "mem":
			c.Section("SELFTEST/mem", nil, 4, func(i int, w *Worker) {
				if i == 1 {
					var keep [][]byte
					for {
						keep = append(keep, make([]byte, 64<<20))
						for j := range keep[len(keep)-1] {
							keep[len(keep)-1][j] = 1
						}
						time.Sleep(50 * time.Millisecond)
					}
				}
			})
		}
	}
}

var replayAliases = map[string]string{
	"C02/indexed": "C02/programs", "C04/indexed": "C04/programs",
	"C07/wellformed": "C07/arbitrary", "C07/library-outputs": "C07/arbitrary", "C07/nested-splits": "C07/arbitrary",
	"C10/escape-model-ext": "C10/escape-model", "C11/formats-2byte": "C11/formats",
	"C01/formats-2byte": "C01/programs", "C01/indexed": "C01/programs",
	"C03/formats-2byte": "C03/programs", "C03/indexed": "C03/programs",
	"C01/join-long": "C01/join", "C03/join-long": "C03/join",
	"C01/number-formats": "C01/programs", "C03/number-formats": "C03/programs", "C04/number-formats": "C04/programs", "C11/number-formats": "C11/formats",
	"C07/byte-windows": "C07/arbitrary", "C07/counts": "C07/arbitrary", "C07/content-lengths": "C07/arbitrary", "C07/boundaries": "C07/arbitrary", "C07/alias-pairs": "C07/arbitrary",
	"C08/concat-long": "C08/concat", "C15/w-grammar": "C15/helper", "C15/operand-kinds": "C15/helper", "C12/histories+hook": "C12/histories",
	"C14/roundtrip-wide": "C14/roundtrip",
}

// findReplayer resolves a section name: exact, alias, or the longest registered prefix
// (sections such as C09/state/level3 or C05/cells/cfg101/shapes share one replayer).
func findReplayer(section string) (func(c *Ctx, raw json.RawMessage) string, bool) {
	section = strings.Replace(section, "/state-large", "/state", 1)
	section = strings.Replace(section, "/seq-numeric", "/seq", 1)
	if a, ok := replayAliases[section]; ok {
		section = a
	}
	if rp, ok := replayers[section]; ok {
		return rp, true
	}
	best := ""
	for k := range replayers {
		if len(k) > len(best) && len(section) > len(k) && section[:len(k)] == k && section[len(k)] == '/' {
			best = k
		}
	}
	if best != "" {
		return replayers[best], true
	}
	return nil, false
}

package main

// Panics that escape a NESTED printer. A SafeFormat/Format method (or a Sprintfn function) writes to the printer it
// was given, then hands SafePrinter.Print/Printf an operand whose method panics with a value whose own printing
// panics: the inner printer cannot report that panic and lets it go; it travels through the user's method and is
// caught (or not) by the printer that called the method. Whatever happens, the outer call's result is a redactable
// string like any other: well-formed (C01), with every unsafe operand inside an envelope (C02), and with what the
// method had written before still there (C11). Shared by the three checks; each reports its own class.

import (
	"encoding/json"
	"fmt"
	"strings"

	"github.com/cockroachdb/redact"
)

type npCase struct {
	Outer int   `json:"outer"` // 0 SafeFormat 1 Format 2 Sprintfn
	Ops   []int `json:"ops"`   // panicAlphabet indexes written before the nested call
	Call  int   `json:"call"`
	Inner int   `json:"inner"`
	Entry int   `json:"entry"`
}

const (
	npOperand = "hu7" // no longer than a marker: a printer that loses track of a closing marker exposes at most that many bytes
	npPayload = "inn3r"
	npPartial = "p4rt"
)

var npOuterNames = []string{"SafeFormat", "Format", "Sprintfn function"}
var npCallNames = []string{"Print(x)", "Print(secret, x)", "Print(x, secret)", "Printf(%v, x)", "Printf(lit %s %v, secret, x)", "Printf(%d|%+v, 7, x)", "Print(Safe(1), x)"}
var npEntryNames = []string{"Sprint(v)", "Sprintf(x %v y %s, v, tail)", "Sprint([]interface{}{v, z})", "StringBuilder.Print(v) after an unsafe write", "Sprint(Safe(v))", "Sprintf(%v-, Unsafe(v))"}

// payloads whose own printing panics
type npPayStr struct{ s string }

func (p npPayStr) String() string { panic(p.s + mStart) }

type npPayErr struct{ s string }

func (p npPayErr) Error() string { panic(p.s + mEnd + "\nz") }

type npPayFmt struct{ s string }

func (p npPayFmt) Format(st fmt.State, _ rune) {
	st.(redact.SafePrinter).UnsafeString(npPartial)
	panic(p.s)
}

type npPayDeep struct{ s string }

func (p npPayDeep) String() string { panic(npPayStr{p.s}) }

type npInnerSF struct{ pl interface{} }

func (x npInnerSF) SafeFormat(p redact.SafePrinter, _ rune) {
	p.SafeString("isf")
	p.UnsafeString(npPartial)
	panic(x.pl)
}

type npInnerMsg struct{ pl interface{} }

func (x npInnerMsg) SafeMessage() string { panic(x.pl) }

var npPayloads = []func() interface{}{
	func() interface{} { return npPayStr{npPayload} },
	func() interface{} { return npPayErr{npPayload} },
	func() interface{} { return npPayFmt{npPayload} },
	func() interface{} { return npPayDeep{npPayload} },
}
var npInnerMethods = []string{"String", "Error", "Format", "GoString", "SafeFormat", "SafeMessage"}

func npInner(k int) interface{} {
	pl := npPayloads[k%len(npPayloads)]()
	switch k / len(npPayloads) {
	case 0:
		return panStrT{pl}
	case 1:
		return panErrT{pl}
	case 2:
		return panFmtT{pl}
	case 3:
		return panGoT{pl}
	case 4:
		return npInnerSF{pl}
	}
	return npInnerMsg{pl}
}

func npNInner() int { return len(npPayloads) * len(npInnerMethods) }

type npFormatter struct{ f func(p redact.SafePrinter) }

func (x npFormatter) Format(st fmt.State, _ rune) { x.f(st.(redact.SafePrinter)) }

// npEval returns, per class, what is wrong with the result ("" everywhere when the case holds).
func npEval(cs npCase) (illFormed, leak, lost string, out redact.RedactableString) {
	ops := make([]*Op, len(cs.Ops))
	for i, k := range cs.Ops {
		ops[i] = &panicAlphabet[k]
	}
	x := npInner(cs.Inner)
	body := func(p redact.SafePrinter) {
		for _, o := range ops {
			applySW(p, o)
		}
		switch cs.Call {
		case 0:
			p.Print(x)
		case 1:
			p.Print(npOperand, x)
		case 2:
			p.Print(x, npOperand)
		case 3:
			p.Printf("%v", x)
		case 4:
			p.Printf("lit %s %v", npOperand, x)
		case 5:
			p.Printf("%d|%+v", 7, x)
		default:
			p.Print(redact.Safe(1), x)
		}
		p.SafeString("after")
	}
	var v interface{}
	switch cs.Outer {
	case 0:
		v = scriptedFn(body)
	case 1:
		v = npFormatter{body}
	}
	pre := ""
	pv, pan := recoverTo(func() {
		if cs.Outer == 2 {
			out = redact.Sprintfn(body)
			return
		}
		switch cs.Entry {
		case 0:
			out = redact.Sprint(v)
		case 1:
			pre = "x "
			out = redact.Sprintf("x %v y %s", v, "tail")
		case 2:
			pre = "["
			out = redact.Sprint([]interface{}{v, "z"})
		case 4:
			out = redact.Sprint(redact.Safe(v))
		case 5:
			out = redact.Sprintf("%v-", redact.Unsafe(v))
		default:
			var sb redact.StringBuilder
			sb.UnsafeString("k")
			sb.Print(v)
			sb.SafeString("end")
			pre = "k"
			out = sb.RedactableString()
		}
	})
	_ = pv
	if pan {
		return "", "", "", "(panic reached the caller)" // the panic reached the caller: allowed for a panic whose own report panics; no result to judge
	}
	desc := fmt.Sprintf("%s writes %v then calls %s with a %s method panicking with a value whose printing panics (payload kind %d), printed by %s", npOuterNames[cs.Outer], opNames(ops), npCallNames[cs.Call], npInnerMethods[cs.Inner/len(npPayloads)], cs.Inner%len(npPayloads), npEntryNames[cs.Entry])
	o := []byte(out)
	if d := wfChecks(o); d != "" {
		illFormed = fmt.Sprintf("%s -> %q: %s", desc, out, d)
	}
	outside := string(EnvDel(o))
	if cs.Entry == 4 {
		outside = "" // the caller declared the whole operand safe
	}
	for _, tok := range []string{npOperand, npPayload, npPartial} {
		if strings.Contains(outside, tok) {
			leak = fmt.Sprintf("%s -> %q: the unsafe text %q is outside the redaction envelopes (redacted form %q)", desc, out, tok, out.Redact())
			break
		}
		if red := string(out.Redact()); cs.Entry != 4 && strings.Contains(red, tok) {
			leak = fmt.Sprintf("%s -> %q: the unsafe text %q survives Redact(): %q", desc, out, tok, red)
			break
		}
	}
	es, _, _ := expect(ops)
	if got := string(Strip(o)); illFormed == "" && cs.Entry < 4 && !strings.HasPrefix(got, pre+string(es)) {
		lost = fmt.Sprintf("%s -> %q: stripped %q does not begin with %q (what the method wrote before the nested call)", desc, out, got, pre+string(es))
	}
	return
}

// npProbes: after the case - whether its panic was reported or reached the caller - later calls classify their
// operands as in a fresh process (a printer abandoned or recycled by the panic path must not keep an override).
func npProbes() string {
	for round := 0; round < 3; round++ {
		if got := string(redact.Sprintf("%v|%v", redact.Unsafe(safeT("s3c")), "u")); got != mStart+"s3c"+mEnd+"|"+mStart+"u"+mEnd {
			return fmt.Sprintf("a later Sprintf(%%v|%%v, Unsafe(safeT(s3c)), u) returns %q", got)
		}
		if got := string(redact.Sprint(redact.Safe("pub"), 7)); got != "pub "+mStart+"7"+mEnd {
			return fmt.Sprintf("a later Sprint(Safe(pub), 7) returns %q", got)
		}
		if got := string(redact.Sprintf("%05d|%s", 5, redact.Safe("t"))); got != mStart+"00005"+mEnd+"|t" {
			return fmt.Sprintf("a later Sprintf(%%05d|%%s, 5, Safe(t)) returns %q", got)
		}
	}
	return ""
}

// npOwnClass: the result of the case itself, when the operand was wrapped: nothing enclosed under Safe(),
// everything enclosed under Unsafe().
func npOwnClass(cs npCase, out redact.RedactableString) string {
	if out == "(panic reached the caller)" || cs.Outer == 2 {
		return ""
	}
	o := []byte(out)
	switch cs.Entry {
	case 4:
		if string(Strip(o)) != string(o) {
			return fmt.Sprintf("case %+v: Sprint(Safe(v)) = %q contains markers", cs, out)
		}
	case 5:
		if got := strings.ReplaceAll(string(EnvDel(o)), "\n", ""); got != "-" { // line feeds are outside by C03
			return fmt.Sprintf("case %+v: Sprintf(%%v-, Unsafe(v)) = %q: outside the envelopes %q, want only the literal", cs, out, got)
		}
	}
	return ""
}

func npCases(maxBody int) []npCase {
	var cases []npCase
	en := NewSeqEnum(len(panicAlphabet), maxBody)
	for outer := 0; outer < 3; outer++ {
		for b := 0; b <= en.Total; b++ {
			var ops []int
			if b < en.Total {
				ops = append([]int(nil), en.Get(b, nil)...)
			}
			for call := range npCallNames {
				for in := 0; in < npNInner(); in++ {
					for entry := range npEntryNames {
						if outer == 2 && entry > 0 {
							continue
						}
						cases = append(cases, npCase{outer, ops, call, in, entry})
					}
				}
			}
		}
	}
	return cases
}

// npSection registers the section for property P reporting class which (0 ill-formed, 1 leak, 2 all three,
// 3 classification of LATER calls).
func npSection(c *Ctx, P string, which int) {
	maxBody := 2
	if !c.Quick() {
		maxBody = 3
	}
	cases := npCases(maxBody)
	c.Section(P+"/nested-double-panic", map[string]interface{}{"outer_methods": npOuterNames, "body_ops": len(panicAlphabet), "max_body": maxBody, "nested_calls": npCallNames, "inner_methods": npInnerMethods, "payloads_whose_printing_panics": len(npPayloads), "entry_points": npEntryNames}, len(cases), func(i int, w *Worker) {
		w.Eval()
		ill, leak, lost, out := npEval(cases[i])
		w.SeenS(string(out))
		if which == 3 {
			if d := npOwnClass(cases[i], out); d != "" {
				w.Fail("classification-after-nested-panic", cases[i], d)
			}
			if d := npProbes(); d != "" {
				w.Fail("stale-classification-after-nested-panic", cases[i], fmt.Sprintf("after case %+v (result %q): %s", cases[i], out, d))
			}
			return
		}
		switch {
		case (which == 0 || which == 2) && ill != "":
			w.Fail("ill-formed-after-nested-panic", cases[i], ill)
		case (which == 1 || which == 2) && leak != "":
			w.Fail("leak-after-nested-panic", cases[i], leak)
		case which == 2 && lost != "":
			w.Fail("lost-output-after-nested-panic", cases[i], lost)
		}
		if i%9973 == 0 {
			w.Sample(map[string]interface{}{"case": cases[i], "output": q(string(out))})
		}
	})
}

func init() {
	for pi, P := range []string{"C01", "C02", "C11", "C06"} {
		which := pi
		replayers[P+"/nested-double-panic"] = func(c *Ctx, raw json.RawMessage) string {
			var cs npCase
			json.Unmarshal(raw, &cs)
			ill, leak, lost, _ := npEval(cs)
			if which == 3 {
				_, _, _, out := npEval(cs)
				if d := npOwnClass(cs, out); d != "" {
					return d
				}
				return npProbes()
			}
			switch {
			case (which == 0 || which == 2) && ill != "":
				return ill
			case (which == 1 || which == 2) && leak != "":
				return leak
			case which == 2:
				return lost
			}
			return ""
		}
	}
}

package main

import (
	"bytes"
	"unicode/utf8"
)

// Independent, byte-level oracles. None of them uses the library's regexes or
// scanner: those are the system under test.

const (
	mStart = "\xe2\x80\xb9" // ‹
	mEnd   = "\xe2\x80\xba" // ›
	mCross = "\xc3\x97"     // ×
	mRed   = mStart + mCross + mEnd
)

func isStartAt(s []byte, i int) bool {
	return i+3 <= len(s) && s[i] == 0xe2 && s[i+1] == 0x80 && s[i+2] == 0xb9
}
func isEndAt(s []byte, i int) bool {
	return i+3 <= len(s) && s[i] == 0xe2 && s[i+1] == 0x80 && s[i+2] == 0xba
}

// WF: markers strictly alternate ‹ … ›, never nested, all closed.
func WF(s []byte) bool {
	open := false
	for i := 0; i < len(s); i++ {
		if isStartAt(s, i) {
			if open {
				return false
			}
			open = true
			i += 2
		} else if isEndAt(s, i) {
			if !open {
				return false
			}
			open = false
			i += 2
		}
	}
	return !open
}

// LINE: no line feed between a start marker and its end marker.
func LINE(s []byte) bool {
	open := false
	for i := 0; i < len(s); i++ {
		if isStartAt(s, i) {
			open = true
			i += 2
		} else if isEndAt(s, i) {
			open = false
			i += 2
		} else if s[i] == '\n' && open {
			return false
		}
	}
	return true
}

func HasMarker(s []byte) bool {
	for i := 0; i < len(s); i++ {
		if isStartAt(s, i) || isEndAt(s, i) {
			return true
		}
	}
	return false
}

// Strip deletes the delimiters (one left-to-right pass, like a regex replace-all).
func Strip(s []byte) []byte {
	out := make([]byte, 0, len(s))
	for i := 0; i < len(s); i++ {
		if isStartAt(s, i) || isEndAt(s, i) {
			i += 2
			continue
		}
		out = append(out, s[i])
	}
	return out
}

// Esc replaces each marker by '?' (one left-to-right pass).
func Esc(s []byte) []byte {
	out := make([]byte, 0, len(s))
	for i := 0; i < len(s); i++ {
		if isStartAt(s, i) || isEndAt(s, i) {
			out = append(out, '?')
			i += 2
			continue
		}
		out = append(out, s[i])
	}
	return out
}

// EnvDel deletes whole envelopes (meaningful on well-formed input only).
func EnvDel(s []byte) []byte {
	out := make([]byte, 0, len(s))
	open := false
	for i := 0; i < len(s); i++ {
		if isStartAt(s, i) {
			open = true
			i += 2
			continue
		}
		if isEndAt(s, i) {
			open = false
			i += 2
			continue
		}
		if !open {
			out = append(out, s[i])
		}
	}
	return out
}

// EnvOnly returns the concatenated contents of the envelopes.
func EnvOnly(s []byte) []byte {
	var out []byte
	open := false
	for i := 0; i < len(s); i++ {
		if isStartAt(s, i) {
			open = true
			i += 2
			continue
		}
		if isEndAt(s, i) {
			open = false
			i += 2
			continue
		}
		if open {
			out = append(out, s[i])
		}
	}
	return out
}

// RedactModel replaces each envelope by ‹×› (well-formed input).
func RedactModel(s []byte) []byte {
	out := make([]byte, 0, len(s))
	open := false
	for i := 0; i < len(s); i++ {
		if isStartAt(s, i) {
			open = true
			out = append(out, mRed...)
			i += 2
			continue
		}
		if isEndAt(s, i) {
			open = false
			i += 2
			continue
		}
		if !open {
			out = append(out, s[i])
		}
	}
	return out
}

func CountEnvelopes(s []byte) int {
	n := 0
	for i := 0; i < len(s); i++ {
		if isStartAt(s, i) {
			n++
			i += 2
		}
	}
	return n
}

func LFs(s []byte) []byte {
	var out []byte
	for _, b := range s {
		if b == '\n' {
			out = append(out, b)
		}
	}
	return out
}

// Norm deletes ›‹ and ‹› to a fixpoint ("up to merging of adjacent envelopes").
func Norm(s []byte) []byte {
	a, b := []byte(mEnd+mStart), []byte(mStart+mEnd)
	for {
		t := bytes.ReplaceAll(bytes.ReplaceAll(s, a, nil), b, nil)
		if len(t) == len(s) {
			return t
		}
		s = t
	}
}

// truncatedTail: s ends in a proper prefix of a multi-byte encoding.
func truncatedTail(s []byte) bool {
	for k := 1; k <= 3 && k <= len(s); k++ {
		t := s[len(s)-k:]
		if utf8.RuneStart(t[0]) && t[0] >= 0xc0 {
			return !utf8.FullRune(t)
		}
		if t[0] < 0x80 {
			return false
		}
	}
	return false
}

// invalidTail: the last rune of s does not decode (what the library's guard tests).
func invalidTail(s []byte) bool {
	r, n := utf8.DecodeLastRune(s)
	return r == utf8.RuneError && n == 1
}

// escModel is the append-only reference model of the escape scanner.
func escModel(b []byte, startLoc int, bnl bool) []byte {
	out := append([]byte(nil), b[:startLoc]...)
	for i := startLoc; i < len(b); {
		switch {
		case bnl && b[i] == '\n':
			if bytes.HasSuffix(out, []byte(mStart)) {
				out = out[:len(out)-3]
			} else {
				out = append(out, mEnd...)
			}
			for i < len(b) && b[i] == '\n' {
				out = append(out, '\n')
				i++
			}
			out = append(out, mStart...)
		case isStartAt(b, i) || isEndAt(b, i):
			out = append(out, '?')
			i += 3
		default:
			out = append(out, b[i])
			i++
		}
	}
	if invalidTail(b) {
		out = append(out, '?')
	}
	return out
}

// retained keeps byte-slice results handed out by the library together with a deep
// copy, so that a later call that scribbles over an earlier result (a result that
// aliases pooled or shared storage) is noticed.
type retained struct {
	live, cp [][]byte
	what     []string
}

func (r *retained) keep(b []byte, what string) {
	if r == nil || len(b) == 0 {
		return
	}
	if len(r.live) >= 8 {
		r.live, r.cp, r.what = r.live[1:], r.cp[1:], r.what[1:]
	}
	r.live = append(r.live, b)
	r.cp = append(r.cp, append([]byte(nil), b...))
	r.what = append(r.what, what)
}

func (r *retained) check() string {
	if r == nil {
		return ""
	}
	for i := range r.live {
		if !bytes.Equal(r.live[i], r.cp[i]) {
			return "a result returned earlier (" + r.what[i] + ") was modified by a later call: " + q(string(r.cp[i])) + " -> " + q(string(r.live[i]))
		}
	}
	return ""
}

package main

import (
	"bytes"
	"encoding/json"
	"fmt"
	"strings"

	redact "github.com/cockroachdb/redact"
	"github.com/cockroachdb/redact/internal/buffer"
)

// ---------------------------------------------------------------------------
// All producers of redactable strings, enumerated once and shared by C01 and
// C03 (each applies its own oracle to every produced string).
// ---------------------------------------------------------------------------

type outOracle func(out []byte) string

func oracleC01(out []byte) string {
	if !WF(out) {
		return "not well-formed (markers do not alternate start/end)"
	}
	if HasMarker(Strip(out)) {
		return "with the library's delimiters removed a marker remains: data forged/re-assembled one"
	}
	return ""
}

func oracleC03(out []byte) string {
	if bytes.IndexByte(out, 10) < 0 {
		return "" // single line: nothing to split (well-formedness is C01)
	}
	if !LINE(out) {
		return "a line feed lies between a start marker and its end marker"
	}
	lines := bytes.Split(out, []byte("\n"))
	var red, str []string
	for _, l := range lines {
		if !WF(l) {
			return fmt.Sprintf("line %q is not well-formed by itself", l)
		}
		red = append(red, string(redact.RedactableBytes(l).Redact()))
		str = append(str, string(redact.RedactableBytes(l).StripMarkers()))
	}
	if got, want := strings.Join(red, "\n"), string(redact.RedactableBytes(out).Redact()); got != want {
		return fmt.Sprintf("redacting line by line gives %q, redacting the whole %q", got, want)
	}
	if got, want := strings.Join(str, "\n"), string(redact.RedactableBytes(out).StripMarkers()); got != want {
		return fmt.Sprintf("stripping line by line gives %q, stripping the whole %q", got, want)
	}
	return ""
}

type prodCase struct {
	Kind string          `json:"kind"`
	Data json.RawMessage `json:"data"`
}

// produceSeq: every implementation on one op sequence.
func produceSeq(al []Op, idx []int, hook bool, orc outOracle, seen func([]byte)) string {
	ops := make([]*Op, len(idx))
	for i, k := range idx {
		if k >= len(al) {
			return "op index out of range"
		}
		ops[i] = &al[k]
	}
	for impl := 0; impl < nImpl; impl++ {
		if impl == implHook && !hook {
			continue
		}
		var out []byte
		if _, pan := recoverTo(func() { out = runImpl(impl, ops) }); pan {
			continue // C11's business
		}
		if impl == implBuilder && seen != nil {
			seen(out)
		}
		if d := orc(out); d != "" {
			return fmt.Sprintf("%s %v -> %q: %s", implNames[impl], opNames(ops), out, d)
		}
	}
	return ""
}

// produceFmt: one (format, args) through every formatting entry point.
func produceFmt(f string, args []interface{}, orc outOracle, seen func([]byte)) string {
	var outs [][]byte
	names := []string{"Sprintf", "Fprintf", "HelperForErrorf", "StringBuilder.Printf", "Sprintfn→Printf"}
	_, pan := recoverTo(func() {
		outs = append(outs, []byte(redact.Sprintf(f, args...)))
		var rec recWriter
		redact.Fprintf(&rec, f, args...)
		outs = append(outs, bytes.Join(rec.writes, nil))
		s, _ := redact.HelperForErrorf(f, args...)
		outs = append(outs, []byte(s))
		var b redact.StringBuilder
		b.UnsafeString("u")
		b.Printf(f, args...)
		outs = append(outs, []byte(b.RedactableString()))
		outs = append(outs, []byte(redact.Sprintfn(func(p redact.SafePrinter) { p.SafeString("s"); p.Printf(f, args...); p.UnsafeString("\n") })))
	})
	_ = pan // a propagating panic is C11/C04's business; whatever was produced is still checked
	for i, out := range outs {
		if i == 0 && seen != nil {
			seen(out)
		}
		if d := orc(out); d != "" {
			return fmt.Sprintf("%s(%q, %s) -> %q: %s", names[i], f, descArgs(args), out, d)
		}
	}
	return ""
}

func producerArgLists() [][]interface{} {
	return [][]interface{}{
		{},
		{"s" + mEnd + "\n", 3},
		{7, errT{"e" + mStart + "\xe2"}, "z\xe2\x80"},
		{nil, []interface{}{1, "a\n" + mStart}, 2.5},
		{-1, 2, redact.RedactableString(mStart + "x" + mEnd + "\n")},
		{map[string]string{mStart + "k\n": "\x80\xb9"}, panStrT{"p\n" + mEnd}, redact.Safe("s" + mStart + "\n")},
		// every operand class that switches the buffer mode in its own way FIRST, so that the shortest programs
		// ("%v" + a literal with a marker) already see what it leaves behind
		{redact.RedactableString("r" + mStart + "x" + mEnd), "u" + mEnd, 1},
		{redact.RedactableBytes(mStart + "y" + mEnd), redact.RedactableString(""), "u"},
		{[]interface{}{redact.RedactableString(mStart + "x" + mEnd)}, 4, "v\n"},
		{redact.Safe("s"), redact.Unsafe(redact.RedactableString(mStart + "x" + mEnd)), "w"},
		{redact.Unsafe("u" + mStart), redact.Safe(errT{"e"}), 2},
		{safeFmtT{"k", "sec" + mEnd}, safeMsgT{"m"}, "t"},
		{panStrT{"p" + mStart}, redact.RedactableString("a"), nil},
		{errT{"e\n"}, strT{"s" + mEnd}, fmtWST{"f"}},
		// operands whose TEXT begins or ends with a part of a marker, safe and unsafe: a literal that ends in the
		// other part and the operand are separate writes, and only together they spell a marker
		{redact.Safe("\x80\xb9x"), redact.Safe("y\xe2\x80"), "\xba"},
		{safeT("\x80\xba"), "\x80\xb9u", redact.Safe("\xb9")},
		{"\x80\xb9", redact.Safe("\x80\xb9"), redact.RedactableString("\x80\xb9")},
	}
}

func runProducers(c *Ctx, P string, orc outOracle) {
	fail := func(w *Worker, cl string, cs interface{}, d string) { w.Fail(cl, cs, d) }
	// (a) writer-call sequences on every implementation
	redact.RegisterRedactErrorFn(scriptedHook)
	seqSec := func(full bool, depth int) {
		al := sigma(full, true)
		precomputeRaw(al)
		en := NewSeqEnum(len(al), depth)
		c.Section(P+"/seq", map[string]interface{}{"alphabet_ops": len(al), "depth": depth, "implementations": implNames, "invalid_runes_and_bytes": true}, en.Total, func(i int, w *Worker) {
			idx := en.Get(i, nil)
			w.Eval()
			if d := produceSeq(al, idx, true, orc, w.SeenB); d != "" {
				names := make([]string, len(idx))
				for j, k := range idx {
					names[j] = al[k].Name
				}
				fail(w, "seq", seqCase{Full: full, Invalid: true, Hook: true, Ops: idx, Names: names}, d)
			}
			if i%150001 == 0 {
				ops := make([]*Op, len(idx))
				for j, k := range idx {
					ops[j] = &al[k]
				}
				recoverTo(func() {
					w.Sample(map[string]interface{}{"ops": opNames(ops), "Sprintfn": q(string(runImpl(implSprintfn, ops)))})
				})
			}
		})
	}
	if c.Quick() {
		seqSec(false, 3)
	} else {
		seqSec(false, 3)
		seqSec(true, 2)
	}
	redact.RegisterRedactErrorFn(nil)
	// (b) explicit-state search
	depth, maxStates := 5, 400000
	if !c.Quick() {
		depth, maxStates = 7, 1500000
	}
	st := bufferBFS(c, P+"/state", depth, maxStates, nil, func(s *buffer.Buffer, op *bufOp, s2 *buffer.Buffer, w *Worker) {
		c2 := s2.VerifClone()
		out := []byte(c2.RedactableString())
		if d := orc(out); d != "" {
			fail(w, "state", stateCase{State: s.VerifState(), Op: op.Name}, fmt.Sprintf("state %+v --%s--> %q: %s", s.VerifState(), op.Name, out, d))
		}
	})
	c.states += st.States
	c.Note(fmt.Sprintf("explicit-state search: %d canonical buffer states, %d transitions, depth %d", st.States, st.Transitions, st.Depth))
	ld := 2
	if !c.Quick() {
		ld = 3
	}
	stL := bufferBFSFrom(c, P+"/state-large", largeInits(largeSizes(c.Quick())), ld, maxStates, nil, func(s *buffer.Buffer, op *bufOp, s2 *buffer.Buffer, w *Worker) {
		c2 := s2.VerifClone()
		out := []byte(c2.RedactableString())
		if d := orc(out); d != "" {
			st := s.VerifState()
			fail(w, "state", stateCase{State: st, Op: op.Name}, fmt.Sprintf("state {%d bytes ...%q ValidUntil:%d Mode:%d MarkerOpen:%v Cap:%d} --%s--> ...%q: %s", len(st.Buf), tailOf(st.Buf, 12), st.ValidUntil, st.Mode, st.MarkerOpen, st.Cap, op.Name, tailOf(out, 24), d))
		}
	})
	c.states += stL.States
	c.Note(fmt.Sprintf("explicit-state search from large buffers (sizes %v, escaped and pending): %d states, %d transitions, depth %d", largeSizes(c.Quick()), stL.States, stL.Transitions, stL.Depth))
	// (c1) directives x universe
	u := universe()
	sp := quickDirectives()
	if !c.Quick() {
		sp = fullDirectives()
		sp.Wids = []int{0, 1, 3, 5, 7}
		sp.Precs = []int{0, 1, 3, 5}
	}
	c.Section(P+"/directives", map[string]interface{}{"directives": sp.Size(), "values": len(u), "entry_points": "Sprintf, Fprintf, HelperForErrorf, StringBuilder.Printf after an unsafe write, SafePrinter.Printf inside Sprintfn"}, sp.Size(), func(i int, w *Worker) {
		d := sp.Get(i)
		f, stars := d.Format()
		for vi := range u {
			for v := 0; v < 2; v++ {
				w.Eval()
				if dt := produceFmt(f, append(append([]interface{}{}, stars...), u[vi].Mk(v)), orc, w.SeenB); dt != "" {
					fail(w, "directive:"+u[vi].Name, map[string]interface{}{"D": d, "V": vi, "Variant": v, "value": u[vi].Name}, dt)
				}
			}
		}
	})
	// (c2) format programs and all short formats (arbitrary bytes)
	k := 3
	if !c.Quick() {
		k = 4
	}
	en := NewStrEnum(fmtTokens, k)
	al := producerArgLists()
	c.Section(P+"/programs", map[string]interface{}{"tokens": fmtTokens, "max_tokens": k, "arg_lists": len(al)}, en.Total, func(i int, w *Worker) {
		f := string(en.Get(i, nil))
		for ai := range al {
			w.Eval()
			if dt := produceFmt(f, al[ai], orc, w.SeenB); dt != "" {
				fail(w, "program", map[string]interface{}{"F": []byte(f), "A": ai, "quoted": q(f)}, dt)
			}
		}
	})
	ifs := indexedFormats(true)
	c.Section(P+"/indexed", map[string]interface{}{"formats": len(ifs), "arg_lists": 2}, len(ifs), func(i int, w *Worker) {
		for _, ai := range []int{1, 4} {
			w.Eval()
			if dt := produceFmt(ifs[i], al[ai], orc, w.SeenB); dt != "" {
				fail(w, "program", map[string]interface{}{"F": []byte(ifs[i]), "A": ai, "quoted": q(ifs[i])}, dt)
			}
		}
	})
	nfs := numberFormats()
	c.Section(P+"/number-formats", map[string]interface{}{"formats": len(nfs), "arg_lists": 2}, len(nfs), func(i int, w *Worker) {
		for _, ai := range []int{1, 4} {
			w.Eval()
			if dt := produceFmt(nfs[i], al[ai], orc, w.SeenB); dt != "" {
				fail(w, "program", map[string]interface{}{"F": []byte(nfs[i]), "A": ai, "quoted": q(nfs[i])}, dt)
			}
		}
	})
	c.Section(P+"/formats-2byte", map[string]interface{}{"formats": "all 1- and 2-byte strings and '%' + all 2-byte strings", "arg_lists": 2}, 65536, func(i int, w *Worker) {
		b0, b1 := byte(i>>8), byte(i)
		fs := []string{string([]byte{b0, b1}), "%" + string([]byte{b0, b1})}
		if b0 == 0 {
			fs = append(fs, string([]byte{b1}))
		}
		for _, f := range fs {
			for _, ai := range []int{1, 2} {
				w.Eval()
				if dt := produceFmt(f, al[ai], orc, w.SeenB); dt != "" {
					fail(w, "program", map[string]interface{}{"F": []byte(f), "A": ai, "quoted": q(f)}, dt)
				}
			}
		}
	})
	// (d) EscapeBytes / single ManualBuffer writes over all byte strings
	n := 5
	if !c.Quick() {
		n = 7
	}
	es := NewStrEnum(alphaB, n)
	c.Section(P+"/bytes", map[string]interface{}{"alphabet": alphaB, "max_len": n, "producers": "EscapeBytes; ManualBuffer write in each mode; Sprint(string); Sprintf(%q/%x/%5s)"}, es.Total, func(i int, w *Worker) {
		b := es.Get(i, nil)
		w.Eval()
		if d := produceBytes(b, orc, w.SeenB); d != "" {
			fail(w, "bytes", map[string]interface{}{"B": b, "quoted": q(string(b))}, d)
		}
	})
	// (c3) systematic size family
	c.Section(P+"/sizes", map[string]interface{}{"sizes": "every n in 0..70", "shapes": len(sizeShapes)}, 71*len(sizeShapes)*2, func(i int, w *Worker) {
		v := i % 2
		n, sh := (i/2)/len(sizeShapes), (i/2)%len(sizeShapes)
		f, args := sizeShapes[sh].Mk(n, v)
		w.Eval()
		var dt string
		if f == "" {
			var out redact.RedactableString
			if _, pan := recoverTo(func() { out = redact.Sprint(args...) }); !pan {
				if d := orc([]byte(out)); d != "" {
					dt = fmt.Sprintf("Sprint(%d operands) -> %q: %s", n, out, d)
				}
			}
		} else {
			dt = produceFmt(f, args, orc, w.SeenB)
		}
		if dt != "" {
			fail(w, "sizes", map[string]interface{}{"N": n, "Shape": sh, "V": v}, dt)
		}
	})
	// (e2) long Join lists
	c.Section(P+"/join-long", map[string]interface{}{"list_lengths": "0..70"}, 71*3, func(i int, w *Worker) {
		n, di := i/3, i%3
		seeds := joinSeeds()
		lst := make([]redact.RedactableString, n)
		for k := range lst {
			lst[k] = seeds[k%len(seeds)]
		}
		w.Eval()
		out := []byte(redact.Join(joinDelims[di], lst))
		w.SeenB(out)
		if d := orc(out); d != "" {
			fail(w, "join", map[string]interface{}{"list": lst, "delim": joinDelims[di]}, fmt.Sprintf("Join of %d = %q: %s", n, out, d))
		}
	})
	// (e) Join / JoinTo over library-produced redactables
	rs := joinSeeds()
	nr := len(rs)
	c.Section(P+"/join", map[string]interface{}{"redactables": nr, "max_list": 3, "delimiters": len(joinDelims)}, nr*nr*nr+nr*nr+nr+1, func(i int, w *Worker) {
		var lst []redact.RedactableString
		switch {
		case i < 1:
		case i < 1+nr:
			lst = []redact.RedactableString{rs[i-1]}
		case i < 1+nr+nr*nr:
			j := i - 1 - nr
			lst = []redact.RedactableString{rs[j/nr], rs[j%nr]}
		default:
			j := i - 1 - nr - nr*nr
			lst = []redact.RedactableString{rs[j/nr/nr], rs[j/nr%nr], rs[j%nr]}
		}
		for _, dl := range joinDelims {
			w.Eval()
			out := []byte(redact.Join(dl, lst))
			w.SeenB(out)
			if d := orc(out); d != "" {
				fail(w, "join", map[string]interface{}{"list": lst, "delim": dl}, fmt.Sprintf("Join(%q, %q) = %q: %s", dl, lst, out, d))
			}
		}
	})
}

// registerProducerReplayers registers the single-case re-executors of the producer sections.
func registerProducerReplayers(P string, orc outOracle) {
	replayers[P+"/seq"] = func(c *Ctx, raw json.RawMessage) string {
		var cs seqCase
		json.Unmarshal(raw, &cs)
		redact.RegisterRedactErrorFn(scriptedHook)
		defer redact.RegisterRedactErrorFn(nil)
		al := sigmaNamed(cs.Alpha, cs.Full, cs.Invalid)
		precomputeRaw(al)
		return produceSeq(al, cs.Ops, cs.Hook, orc, nil)
	}
	replayers[P+"/state"] = func(c *Ctx, raw json.RawMessage) string {
		var cs stateCase
		json.Unmarshal(raw, &cs)
		s := buffer.VerifMake(cs.State)
		for _, op := range bufOps() {
			if op.Name == cs.Op {
				op.Apply(&s)
				return orc([]byte(s.RedactableString()))
			}
		}
		return "unknown op"
	}
	replayers[P+"/directives"] = func(c *Ctx, raw json.RawMessage) string {
		var cs struct {
			D          Directive
			V, Variant int
		}
		json.Unmarshal(raw, &cs)
		f, stars := cs.D.Format()
		return produceFmt(f, append(stars, universe()[cs.V].Mk(cs.Variant)), orc, nil)
	}
	rp := func(c *Ctx, raw json.RawMessage) string {
		var cs struct {
			F []byte
			A int
		}
		json.Unmarshal(raw, &cs)
		return produceFmt(string(cs.F), producerArgLists()[cs.A], orc, nil)
	}
	replayers[P+"/programs"], replayers[P+"/formats-2byte"], replayers[P+"/indexed"], replayers[P+"/number-formats"] = rp, rp, rp, rp
	replayers[P+"/bytes"] = func(c *Ctx, raw json.RawMessage) string {
		var cs struct{ B []byte }
		json.Unmarshal(raw, &cs)
		return produceBytes(cs.B, orc, nil)
	}
	replayers[P+"/join"] = func(c *Ctx, raw json.RawMessage) string {
		var cs struct {
			List  []redact.RedactableString `json:"list"`
			Delim redact.RedactableString   `json:"delim"`
		}
		json.Unmarshal(raw, &cs)
		return orc([]byte(redact.Join(cs.Delim, cs.List)))
	}
}

func joinSeeds() []redact.RedactableString {
	return []redact.RedactableString{
		"", "safe", redact.Sprint("u" + mStart + "\n"), redact.Sprint("\n"), redact.Sprintf("%d %s", 1, redact.Safe("s")),
		redact.Sprint("x\xe2"), redact.RedactableString(redact.EscapeBytes([]byte("e\n\ne"))), redact.Sprint(redact.Safe(mEnd)), redact.Sprintf("%q", "q\n"),
	}
}

func produceBytes(b []byte, orc outOracle, seen func([]byte)) string {
	type prod struct {
		name string
		f    func() []byte
	}
	ps := []prod{
		{"EscapeBytes", func() []byte { return []byte(redact.EscapeBytes(b)) }},
		{"ManualBuffer unsafe Write", func() []byte { var m buffer.Buffer; m.Write(b); return []byte(m.RedactableString()) }},
		{"ManualBuffer safe WriteString", func() []byte {
			var m buffer.Buffer
			m.SetMode(buffer.SafeEscaped)
			m.WriteString(string(b))
			return []byte(m.RedactableString())
		}},
		{"ManualBuffer safe then unsafe", func() []byte {
			var m buffer.Buffer
			m.SetMode(buffer.SafeEscaped)
			m.Write(b)
			m.SetMode(buffer.UnsafeEscaped)
			m.Write(b)
			return []byte(m.TakeRedactableBytes())
		}},
		{"Sprint(string)", func() []byte { return []byte(redact.Sprint(string(b))) }},
		{"Sprintf(lit+%s+lit)", func() []byte { return []byte(redact.Sprintf(string(b)+"%s"+string(b), string(b))) }},
		{"Sprintf(%q|%x|%7s|%-7s|)", func() []byte { return []byte(redact.Sprintf("%q|%x|%7s|%-7s|", b, b, b, string(b))) }},
		{"Sprint(Safe(string))", func() []byte { return []byte(redact.Sprint(redact.Safe(string(b)), string(b))) }},
		{"Sprint(error)", func() []byte { return []byte(redact.Sprint(errT{string(b)})) }},
		{"panic payload", func() []byte { return []byte(redact.Sprint(panStrT{string(b)})) }},
		{"map key", func() []byte { return []byte(redact.Sprint(map[string]string{string(b): string(b)})) }},
	}
	for i, p := range ps {
		var out []byte
		if pv, pan := recoverTo(func() { out = p.f() }); pan {
			return fmt.Sprintf("%s(%q) panics: %v", p.name, b, pv)
		}
		if i == 0 && seen != nil {
			seen(out)
		}
		if d := orc(out); d != "" {
			return fmt.Sprintf("%s(%q) = %q: %s", p.name, b, out, d)
		}
	}
	return ""
}

func init() {
	registerProducerReplayers("C01", oracleC01)
	registerProducerReplayers("C03", oracleC03)
	checks["C01"] = func(c *Ctx) {
		runProducers(c, "C01", oracleC01)
		npSection(c, "C01", 0)
		c.Assume("payloads are <=2 alphabet symbols in sequences, <=5/7 bytes in single writes, plus long symbols; values are those of the universe (DESIGN section 4)")
	}
	rules["C01"] = "every producer of redactable text (8 SafeWriter implementations on all call sequences, explicit-state search over buffer states, 5 formatting entry points on directives x universe, format programs and all 1-2 byte formats, 11 byte-string producers on all short byte strings, Join on all short lists) with the well-formedness oracle on every produced string; distinct = distinct outputs"
	checks["C03"] = func(c *Ctx) {
		runProducers(c, "C03", oracleC03)
		c.Assume("same spaces as C01; the payload alphabet places LF at the start, end, doubled, next to each marker byte, next to padding/quoting, next to mode switches and partial UTF-8")
	}
	rules["C03"] = "the same producer spaces as C01 with the line oracle on every produced string: no LF inside an envelope, every line well-formed alone, Redact/StripMarkers line-by-line equal to whole; distinct = distinct outputs"
}

package main

import (
	"errors"
	"fmt"
	"io"
	"math"
	"strings"
	"unicode/utf8"

	redact "github.com/cockroachdb/redact"
	ifaces "github.com/cockroachdb/redact/interfaces"
	"github.com/cockroachdb/redact/internal/buffer"
)

// ---------------------------------------------------------------------------
// Operation alphabet over SafeWriter (+ the io.Writer side)
// ---------------------------------------------------------------------------

type opKind int

const (
	kSafeString opKind = iota
	kSafeBytes
	kUnsafeString
	kUnsafeBytes
	kWrite
	kWriteString
	kSafeByte
	kUnsafeByte
	kWriteByte
	kSafeRune
	kUnsafeRune
	kWriteRune
	kSafeInt
	kSafeUint
	kSafeFloat
	kPrint
	kPrintf
)

var kindNames = []string{"SafeString", "SafeBytes", "UnsafeString", "UnsafeBytes", "Write", "WriteString", "SafeByte", "UnsafeByte", "WriteByte", "SafeRune", "UnsafeRune", "WriteRune", "SafeInt", "SafeUint", "SafeFloat", "Print", "Printf"}

type Op struct {
	K    opKind
	S    string  // string/bytes payload
	B    byte    // byte payload
	R    rune    // rune payload
	N    int64   // int payload
	F    float64 // float payload
	Fmt  string
	Args []interface{}
	// reference model
	Class byte   // 'S' safe, 'U' unsafe, 'R' raw well-formed fragment
	Text  []byte // bytes the op contributes (before escaping)
	Valid bool   // payload is valid UTF-8 / a valid rune / an ASCII byte
	Name  string
}

func (o Op) String() string { return o.Name }

// panicStringer panics in String.
type panicStringer struct{ msg string }

func (p panicStringer) String() string { panic(p.msg) }

func mkOp(k opKind, s string) Op {
	o := Op{K: k, S: s, Text: []byte(s), Valid: utf8.ValidString(s), Name: kindNames[k] + "(" + q(s) + ")"}
	switch k {
	case kSafeString, kSafeBytes:
		o.Class = 'S'
	default:
		o.Class = 'U'
	}
	return o
}
func mkByteOp(k opKind, b byte) Op {
	o := Op{K: k, B: b, Text: []byte{b}, Valid: b < 0x80, Name: fmt.Sprintf("%s(0x%02x)", kindNames[k], b), Class: 'U'}
	if k == kSafeByte {
		o.Class = 'S'
	}
	return o
}
func mkRuneOp(k opKind, r rune) Op {
	o := Op{K: k, R: r, Text: []byte(string(r)), Valid: utf8.ValidRune(r), Name: fmt.Sprintf("%s(%#x)", kindNames[k], r), Class: 'U'}
	if k == kSafeRune {
		o.Class = 'S'
	}
	return o
}
func mkPrint(args ...interface{}) Op {
	o := Op{K: kPrint, Args: args, Class: 'R', Valid: true}
	o.Name = fmt.Sprintf("Print(%s)", descArgs(args))
	return o
}
func mkPrintf(f string, args ...interface{}) Op {
	o := Op{K: kPrintf, Fmt: f, Args: args, Class: 'R', Valid: true}
	o.Name = fmt.Sprintf("Printf(%q,%s)", f, descArgs(args))
	return o
}
func descArgs(args []interface{}) string {
	var p []string
	for _, a := range args {
		p = append(p, fmt.Sprintf("%T:%q", a, fmt.Sprintf("%v", safeDesc(a))))
	}
	return strings.Join(p, ",")
}
func safeDesc(a interface{}) (r interface{}) {
	defer func() {
		if recover() != nil {
			r = "<panics>"
		}
	}()
	return fmt.Sprintf("%v", a)
}

// rawText computes (lazily) the reference text of Print/Printf ops with the
// library's own top-level route (the nested routes are compared to it).
func (o *Op) rawText() []byte {
	if o.Text == nil {
		if o.K == kPrint {
			o.Text = []byte(redact.Sprint(o.Args...))
		} else {
			o.Text = []byte(redact.Sprintf(o.Fmt, o.Args...))
		}
		if o.Text == nil {
			o.Text = []byte{}
		}
	}
	return o.Text
}

var negZero = math.Copysign(0, -1)

func numOps() []Op {
	mk := func(k opKind, name string, text string) Op {
		return Op{K: k, Class: 'S', Text: []byte(text), Valid: true, Name: name}
	}
	a := mk(kSafeInt, "SafeInt(-12)", "-12")
	a.N = -12
	b := mk(kSafeInt, "SafeInt(0)", "0")
	c := mk(kSafeUint, "SafeUint(7)", "7")
	c.N = 7
	d := mk(kSafeFloat, "SafeFloat(2.5)", "2.5")
	d.F = 2.5
	e := mk(kSafeFloat, "SafeFloat(-0)", fmt.Sprint(negZero))
	e.F = negZero
	return []Op{a, b, c, d, e}
}

var (
	payloadsB1   = alphaB
	payloadsMini = []string{"a", "\n", mStart, mEnd, "\xe2"}
	payloadsQ    = []string{"", "a", " ", "\n", "?", "\xe2", "\x80", "\xb9", "\xba", mStart, mEnd, "x\ny", "é", "\u1039", "\u503a", "\U0001f039", "b\ufffd", "\u2038", "\u203b"}
	payloadsLong = []string{strings.Repeat("a", 61), strings.Repeat("a", 64), strings.Repeat("a", 70), strings.Repeat("a", 62) + mStart, strings.Repeat("a", 63) + "\n"}
	runesQ       = []rune{'a', '\n', '‹', '›', 'é', 0xfffd}
	runesFull    = []rune{'a', '\n', ' ', '‹', '›', 'é', '×', 0xfffd, 0x10ffff, 0xd800, 0xdfff, -1, 0x110000}
	bytesQ       = []byte{'a', '\n', 0xe2, 0x80, 0xb9}
	bytesFull    = []byte{'a', ' ', '\n', '?', 0xe2, 0x80, 0xb9, 0xba, 0xc3, 0xff}
)

func payloadsFull() []string {
	r := []string{""}
	r = append(r, alphaB...)
	for _, a := range alphaB {
		for _, b := range alphaB {
			r = append(r, a+b)
		}
	}
	r = append(r, "x\ny", "\n\n", mRed, mStart, mEnd, "é", mStart+"a"+mEnd)
	return r
}

func printOps(full bool) []Op {
	ops := []Op{
		mkPrint("u" + mStart + "\nv"),
		mkPrint(redact.Safe("s" + mEnd)),
		mkPrint(1, 2),
		mkPrint(redact.RedactableString("a" + mStart + "b" + mEnd + "\n" + mStart + "c" + mEnd + "d")),
		mkPrint(redact.RedactableBytes(mStart + "b" + mEnd + "e")),
		mkPrint(panicStringer{"boom" + mStart}),
		mkPrintf("%d-%s", 5, "u"),
		mkPrintf("lit"+mStart+"%v", redact.Safe("s")),
		mkPrintf("%5.1f|%-4q", 3.14159, "q\n"),
		mkPrintf("100%%|%d"),
	}
	if full {
		ops = append(ops,
			mkPrint(nil),
			mkPrint(),
			mkPrint("x", redact.Safe(3), "y"),
			mkPrint(errors.New("err\n"+mEnd)),
			mkPrint(redact.Unsafe(redact.Safe("z"))),
			mkPrintf("%!"),
			mkPrintf("%d %d", 1),
			mkPrintf("\xe2"),
			mkPrintf("%s", redact.RedactableBytes(mStart+"\xe2?"+mEnd)),
		)
	}
	return ops
}

// sigmaNum: the numeric SafeWriter calls at the extremes of their domains (the decimal rendering is shared
// between implementations only by convention), with a few neighbours to sit between.
func sigmaNum() []Op {
	mk := func(k opKind, name string, text string) Op {
		return Op{K: k, Class: 'S', Text: []byte(text), Valid: true, Name: name}
	}
	var ops []Op
	for _, n := range []int64{math.MinInt64, math.MaxInt64, -1, 0, 1 << 31, -(1 << 31) - 1} {
		o := mk(kSafeInt, fmt.Sprintf("SafeInt(%d)", n), fmt.Sprint(n))
		o.N = n
		ops = append(ops, o)
	}
	for _, u := range []uint64{0, math.MaxUint64, 1 << 63, 1<<63 - 1, 1 << 32, 0xdeadbeefcafef00d} {
		o := mk(kSafeUint, fmt.Sprintf("SafeUint(%d)", u), fmt.Sprint(u))
		o.N = int64(u)
		ops = append(ops, o)
	}
	for _, f := range []float64{math.NaN(), math.Inf(1), math.Inf(-1), math.MaxFloat64, math.SmallestNonzeroFloat64, 1e21, 1e20, 1e-7, 0.1, float64(float32(0.1)), negZero, 123456789.125} {
		o := mk(kSafeFloat, fmt.Sprintf("SafeFloat(%v)", f), fmt.Sprint(f))
		o.F = f
		ops = append(ops, o)
	}
	for _, b := range []byte{0, 0x7f, 0x80, 0xff} {
		ops = append(ops, mkByteOp(kSafeByte, b), mkByteOp(kUnsafeByte, b))
	}
	for _, r := range []rune{0, 0x7f, 0x80, 0x7ff, 0x800, 0xffff, 0x10000, 0x10ffff} {
		ops = append(ops, mkRuneOp(kSafeRune, r), mkRuneOp(kUnsafeRune, r))
	}
	ops = append(ops, mkOp(kSafeString, "s"), mkOp(kUnsafeString, "u"), mkOp(kUnsafeString, ""))
	return ops
}

// sigmaNamed selects the alphabet a replay file refers to.
func sigmaNamed(alpha string, full, withInvalid bool) []Op {
	if alpha == "num" {
		return sigmaNum()
	}
	return sigma(full, withInvalid)
}

// sigmaQ: the quick alphabet (~100 ops); sigmaFull: the thorough one.
func sigma(full bool, withInvalid bool) []Op {
	var ops []Op
	strs, minis := payloadsQ, payloadsMini
	rs, bs := runesQ, bytesQ
	if full {
		strs, minis = payloadsFull(), append(append([]string{}, payloadsQ...), payloadsLong...)
		rs, bs = runesFull, bytesFull
	}
	for _, s := range strs {
		ops = append(ops, mkOp(kSafeString, s), mkOp(kUnsafeString, s), mkOp(kWrite, s))
	}
	for _, s := range minis {
		ops = append(ops, mkOp(kSafeBytes, s), mkOp(kUnsafeBytes, s), mkOp(kWriteString, s))
	}
	for _, b := range bs {
		ops = append(ops, mkByteOp(kSafeByte, b), mkByteOp(kUnsafeByte, b))
	}
	for _, b := range bs[:3] {
		ops = append(ops, mkByteOp(kWriteByte, b))
	}
	for _, r := range rs {
		if !utf8.ValidRune(r) && !withInvalid {
			continue
		}
		ops = append(ops, mkRuneOp(kSafeRune, r), mkRuneOp(kUnsafeRune, r))
	}
	for _, r := range rs[:3] {
		ops = append(ops, mkRuneOp(kWriteRune, r))
	}
	if withInvalid && !full {
		ops = append(ops, mkRuneOp(kSafeRune, 0xd800), mkRuneOp(kUnsafeRune, -1), mkRuneOp(kWriteRune, 0x110000))
	}
	nops := numOps()
	if !full {
		nops = []Op{nops[0], nops[2], nops[3]}
	}
	ops = append(ops, nops...)
	ops = append(ops, printOps(full)...)
	return ops
}

// ---------------------------------------------------------------------------
// Implementations
// ---------------------------------------------------------------------------

// applySW applies an op to a SafeWriter that may also offer the io side.
func applySW(w redact.SafeWriter, o *Op) {
	switch o.K {
	case kSafeString:
		w.SafeString(redact.SafeString(o.S))
	case kSafeBytes:
		w.SafeBytes([]byte(o.S))
	case kUnsafeString:
		w.UnsafeString(o.S)
	case kUnsafeBytes:
		w.UnsafeBytes([]byte(o.S))
	case kWrite:
		w.(io.Writer).Write([]byte(o.S))
	case kWriteString:
		io.WriteString(w.(io.Writer), o.S)
	case kSafeByte:
		w.SafeByte(ifaces.SafeByte(o.B))
	case kUnsafeByte:
		w.UnsafeByte(o.B)
	case kWriteByte:
		if bw, ok := w.(io.ByteWriter); ok {
			bw.WriteByte(o.B)
		} else {
			w.(io.Writer).Write([]byte{o.B})
		}
	case kSafeRune:
		w.SafeRune(redact.SafeRune(o.R))
	case kUnsafeRune:
		w.UnsafeRune(o.R)
	case kWriteRune:
		if rw, ok := w.(interface{ WriteRune(rune) error }); ok {
			rw.WriteRune(o.R)
		} else {
			io.WriteString(w.(io.Writer), string(o.R))
		}
	case kSafeInt:
		w.SafeInt(redact.SafeInt(o.N))
	case kSafeUint:
		w.SafeUint(redact.SafeUint(o.N))
	case kSafeFloat:
		w.SafeFloat(redact.SafeFloat(o.F))
	case kPrint:
		w.Print(o.Args...)
	case kPrintf:
		w.Printf(o.Fmt, o.Args...)
	}
}

// applyMB applies an op to a ManualBuffer the way a careful caller would:
// select the mode, then use the plain write methods.
func applyMB(b *buffer.Buffer, o *Op) {
	switch o.Class {
	case 'S':
		b.SetMode(buffer.SafeEscaped)
	case 'U':
		b.SetMode(buffer.UnsafeEscaped)
	case 'R':
		b.SetMode(buffer.PreRedactable)
	}
	switch o.K {
	case kSafeString, kUnsafeString, kWriteString:
		b.WriteString(o.S)
	case kSafeBytes, kUnsafeBytes, kWrite:
		b.Write([]byte(o.S))
	case kSafeByte, kUnsafeByte, kWriteByte:
		b.WriteByte(o.B)
	case kSafeRune, kUnsafeRune, kWriteRune:
		b.WriteRune(o.R)
	case kSafeInt, kSafeUint, kSafeFloat:
		b.WriteString(string(o.Text))
	case kPrint, kPrintf:
		b.Write(o.rawText())
	}
}

type scripted struct{ ops []*Op }

func (s scripted) SafeFormat(p redact.SafePrinter, _ rune) {
	for _, o := range s.ops {
		applySW(p, o)
	}
}

// scriptedFmt discovers the SafePrinter behind its fmt.State.
type scriptedFmt struct{ ops []*Op }

func (s scriptedFmt) Format(st fmt.State, _ rune) {
	p := st.(redact.SafePrinter)
	for _, o := range s.ops {
		applySW(p, o)
	}
}

type scriptedErr struct{ ops []*Op }

func (s *scriptedErr) Error() string { return "scriptedErr" }

func scriptedHook(err error, p redact.SafePrinter, verb rune) {
	if s, ok := err.(*scriptedErr); ok {
		for _, o := range s.ops {
			applySW(p, o)
		}
		return
	}
	p.UnsafeString(err.Error())
}

const (
	implBuilder = iota
	implManual
	implSprintfn
	implSafeFormat
	implFormatter
	implHook // needs scriptedHook installed
	implCtxBefore
	implCtxAfter
	nImpl
)

var implNames = []string{"StringBuilder", "ManualBuffer", "Sprintfn", "Sprint(SafeFormatter)", "Sprint(Formatter→SafePrinter)", "Sprint(error via hook)", "Sprintf(\"%s %v\",unsafe,SafeFormatter)", "Sprintf(\"%v|%s\",SafeFormatter,unsafe)"}

// ctx segments added by the contextual implementations
var (
	ctxBeforeU = mkOp(kUnsafeString, "x"+mEnd)
	ctxSpace   = mkOp(kSafeString, " ")
	ctxBar     = mkOp(kSafeString, "|")
	ctxAfterU  = mkOp(kUnsafeString, "\ny")
)

// runImpl executes ops on one implementation and returns the produced redactable.
func runImpl(impl int, ops []*Op) []byte {
	switch impl {
	case implBuilder:
		var b redact.StringBuilder
		for _, o := range ops {
			applySW(&b, o)
		}
		return []byte(b.RedactableString())
	case implManual:
		var b buffer.Buffer
		for _, o := range ops {
			applyMB(&b, o)
		}
		return []byte(b.RedactableString())
	case implSprintfn:
		return []byte(redact.Sprintfn(func(w redact.SafePrinter) {
			for _, o := range ops {
				applySW(w, o)
			}
		}))
	case implSafeFormat:
		return []byte(redact.Sprint(scripted{ops}))
	case implFormatter:
		return []byte(redact.Sprint(scriptedFmt{ops}))
	case implHook:
		return []byte(redact.Sprint(&scriptedErr{ops}))
	case implCtxBefore:
		return []byte(redact.Sprintf("%s %v", ctxBeforeU.S, scripted{ops}))
	case implCtxAfter:
		return []byte(redact.Sprintf("%v|%s", scripted{ops}, ctxAfterU.S))
	}
	panic("bad impl")
}

// modelOps returns the op list the reference model sees for an implementation.
func modelOps(impl int, ops []*Op) []*Op {
	switch impl {
	case implCtxBefore:
		return append([]*Op{&ctxBeforeU, &ctxSpace}, ops...)
	case implCtxAfter:
		return append(append([]*Op{}, ops...), &ctxBar, &ctxAfterU)
	}
	return ops
}

// expect computes the two reference texts of C09 for a list of ops:
// stripped = concat esc(payload), envdel = concat (safe ? esc(payload) : lfs(payload)).
func expect(ops []*Op) (stripped, envdel []byte, allValid bool) {
	allValid = true
	for _, o := range ops {
		if !o.Valid {
			allValid = false
		}
		switch o.Class {
		case 'S':
			e := Esc(o.Text)
			stripped = append(stripped, e...)
			envdel = append(envdel, e...)
		case 'U':
			stripped = append(stripped, Esc(o.Text)...)
			envdel = append(envdel, LFs(o.Text)...)
		case 'R':
			t := o.rawText()
			stripped = append(stripped, Strip(t)...)
			envdel = append(envdel, EnvDel(t)...)
		}
	}
	return
}

func opNames(ops []*Op) []string {
	r := make([]string, len(ops))
	for i, o := range ops {
		r[i] = o.Name
	}
	return r
}

// SeqEnum enumerates all op sequences of length 1..depth over an alphabet.
type SeqEnum struct {
	N, Depth int
	offs     []int
	Total    int
}

func NewSeqEnum(n, depth int) *SeqEnum {
	e := &SeqEnum{N: n, Depth: depth}
	c := n
	for k := 1; k <= depth; k++ {
		e.offs = append(e.offs, e.Total)
		e.Total += c
		c *= n
	}
	return e
}
func (e *SeqEnum) Get(i int, dst []int) []int {
	k := 0
	for k+1 < len(e.offs) && e.offs[k+1] <= i {
		k++
	}
	r := i - e.offs[k]
	dst = dst[:0]
	for j := 0; j <= k; j++ {
		dst = append(dst, 0)
	}
	for j := k; j >= 0; j-- {
		dst[j] = r % e.N
		r /= e.N
	}
	return dst
}

package main

import (
	"errors"
	"fmt"
	"io"
	"math"
	"reflect"
	"strings"
	"time"

	redact "github.com/cockroachdb/redact"
)

// ---------------------------------------------------------------------------
// Value universe U. Every value is a generator Mk(variant): variants 0 and 1
// have the same type, shape, emptiness, rune/byte lengths and line-feed
// positions and differ in every unsafe leaf (C02 instantiates both).
// ---------------------------------------------------------------------------

type Val struct {
	Name string
	Mk   func(v int) interface{}
	Fmt  bool // fmt-compatible, valid UTF-8, no redact-specific rendering (usable by C04)
	// PanicMid: a method panics and further elements follow in the same operand
	// (Go >= 1.21 fmt loses width/precision after catchPanic: compare only without them).
	PanicMid bool
	Own      bool // has a classification of its own (redactable, SafeFormatter, SafeMessager, wrappers)
	Addr     bool // rendering contains addresses
	Passive  bool // no user methods
	// UnsafeFmt: the value has a classification of its own, but under an outermost Unsafe() that classification is
	// bypassed and the characters are exactly what fmt prints for the bare value
	UnsafeFmt bool
	WrapOnly  bool // own classification only through Safe()/Unsafe() wrappers and SafeValue types (no redactable, SafeFormatter, SafeMessager inside)
}

// secrets
var (
	secStr   = [2]string{"sec" + mStart + "ret", "XYZ" + mEnd + "QRS"}
	secStrLF = [2]string{"aé\nb" + mStart + "c", "Xõ\nY" + mEnd + "Z"}
	secPlain = [2]string{"alpha", "OMEGA"}
	secInt   = [2]int{1234, -5678}
	secU8    = [2]uint8{200, 17}
	secF     = [2]float64{3.25, -1e21}
	secB     = [2]bool{true, false}
	secC     = [2]complex128{1 + 2i, -3.5 - 4i}
	secBytes = [2]string{"b1\nb2" + mStart, "QW\nER" + mEnd}
	secRune  = [2]rune{'x', 'Ж'}
	secKeyA  = [2]string{"ka", "xa"}
	secKeyB  = [2]string{"kb", "xb"}
)

type (
	namedInt2  int
	namedFloat float64
	namedU8    uint8
	namedBool  bool
	namedBytes []byte
	namedSlice []int
	namedMap   map[string]int
	safeT      string // SafeValue-marked
	safeIntT   int
	strT       struct{ s string }
	ptrStrT    struct{ s string }
	errT       struct{ msg string }
	wrapErrT   struct {
		msg   string
		inner error
	}
	goT     struct{ s string }
	fmtT    struct{ payload string }
	selfRef struct {
		V    int
		Next *selfRef
	}
	reStrT  struct{ s string }
	reFmtT  struct{ s string }
	fmtWST  struct{ payload string }
	recFmtT struct{ tag string }
	errFmtT struct{ msg string }
	strErrT struct{ msg string }
	panStrT struct{ pl interface{} }
	panErrT struct{ pl interface{} }
	panFmtT struct{ pl interface{} }
	panGoT  struct{ pl interface{} }
	panPayT struct{ s string } // a panic payload whose String panics (double panic)
	structT struct {
		A int
		b string
		C interface{}
	}
	embedT struct {
		structInner
		Z string
	}
	structInner struct{ X, y int }
	safeMsgT    struct{ secret string }
	safeFmtT    struct{ pub, sec string }
	regT        struct{ v int } // registered as safe in some configurations
	regStrT     string
)

func (safeT) SafeValue()                     {}
func (safeIntT) SafeValue()                  {}
func (s strT) String() string                { return s.s }
func (s *ptrStrT) String() string            { return s.s }
func (e errT) Error() string                 { return e.msg }
func (e wrapErrT) Error() string             { return e.msg + ": " + e.inner.Error() }
func (e wrapErrT) Unwrap() error             { return e.inner }
func (g goT) GoString() string               { return "go:" + g.s }
func (f fmtT) Format(s fmt.State, verb rune) { fmt.Fprintf(s, "F<%s|%c>", f.payload, verb) }
func (f fmtWST) Format(s fmt.State, verb rune) {
	io.WriteString(s, "W<")
	io.WriteString(s, f.payload)
	s.Write([]byte(">"))
}
func (r reStrT) String() string {
	return string(redact.Sprintf("in[%s|%d|%v]", r.s, 5, redact.Safe("p")))
}
func (r reFmtT) Format(s fmt.State, verb rune) {
	redact.Fprintf(s, "via[%s|%v]", r.s, redact.Safe("p"))
	fmt.Fprint(s, redact.Sprint(r.s))
}
func (f recFmtT) Format(s fmt.State, verb rune) {
	fmt.Fprintf(s, "R[%s %c", f.tag, verb)
	for _, c := range flagChars {
		if s.Flag(int(c)) {
			fmt.Fprintf(s, "%c", c)
		}
	}
	if w, ok := s.Width(); ok {
		fmt.Fprintf(s, " w%d", w)
	}
	if p, ok := s.Precision(); ok {
		fmt.Fprintf(s, " p%d", p)
	}
	fmt.Fprint(s, "]")
}
func (e errFmtT) Error() string                 { return "E:" + e.msg }
func (e errFmtT) Format(s fmt.State, verb rune) { fmt.Fprintf(s, "EF<%s>", e.msg) }
func (e strErrT) Error() string                 { return "err:" + e.msg }
func (e strErrT) String() string                { return "str:" + e.msg }
func (p panStrT) String() string                { panic(p.pl) }
func (p panErrT) Error() string                 { panic(p.pl) }
func (p panFmtT) Format(s fmt.State, verb rune) { fmt.Fprint(s, "part"); panic(p.pl) }
func (p panGoT) GoString() string               { panic(p.pl) }
func (p panPayT) String() string                { panic("inner " + p.s) }
func (m safeMsgT) SafeMessage() string          { return "const-message" }

// fmtSPT is a plain fmt.Formatter that uses redact's printer when it is handed one (as error libraries do): under
// Unsafe() the SafeFormatter interface is not dispatched, so this is the only way to reach the nested printer there.
type fmtSPT struct{ s string }

func (f fmtSPT) Format(st fmt.State, verb rune) {
	if sp, ok := st.(redact.SafePrinter); ok {
		sp.Printf("%s:\n%s", f.s, f.s)
		sp.Print("\n", f.s)
		return
	}
	fmt.Fprintf(st, "%s:\n%s\n%s", f.s, f.s, f.s)
}

func (f safeFmtT) SafeFormat(p redact.SafePrinter, verb rune) {
	p.SafeString(redact.SafeString(f.pub))
	p.SafeRune('=')
	p.UnsafeString(f.sec)
}

// sharedMarkerRunes: one slice for both instantiations (%p prints its address)
var sharedMarkerRunes = []rune{0x2039, 'a', 0x203a}

func sv(name string, fmtOK bool, mk func(v int) interface{}) Val {
	return Val{Name: name, Mk: mk, Fmt: fmtOK, Passive: true}
}

func universe() []Val {
	var u []Val
	add := func(v Val) { u = append(u, v) }
	// --- basic kinds
	add(sv("bool", true, func(v int) interface{} { return secB[v] }))
	add(sv("int", true, func(v int) interface{} { return secInt[v] }))
	add(sv("int8", true, func(v int) interface{} { return [2]int8{-128, 127}[v] }))
	add(sv("int16", true, func(v int) interface{} { return [2]int16{-300, 299}[v] }))
	add(sv("int32/rune", true, func(v int) interface{} { return secRune[v] }))
	add(sv("int64min", true, func(v int) interface{} { return [2]int64{-1 << 63, 1<<63 - 1}[v] }))
	add(sv("uint", true, func(v int) interface{} { return [2]uint{42, 77}[v] }))
	add(sv("uint8", true, func(v int) interface{} { return secU8[v] }))
	add(sv("uint16", true, func(v int) interface{} { return [2]uint16{65535, 12345}[v] }))
	add(sv("uint32", true, func(v int) interface{} { return [2]uint32{0x10ffff, 0x41}[v] }))
	add(sv("uint64max", true, func(v int) interface{} { return [2]uint64{1<<64 - 1, 1 << 63}[v] }))
	add(sv("uintptr", true, func(v int) interface{} { return [2]uintptr{0xdead, 0xbeef}[v] }))
	add(sv("float32", true, func(v int) interface{} { return [2]float32{2.5, -0.125}[v] }))
	add(sv("float64", true, func(v int) interface{} { return secF[v] }))
	add(sv("float64inf", true, func(v int) interface{} { return [2]float64{inf(1), inf(-1)}[v] }))
	add(sv("float64negzero", true, func(v int) interface{} { return [2]float64{negZero, 7}[v] }))
	add(sv("complex64", true, func(v int) interface{} { return complex64(secC[v]) }))
	add(sv("complex128", true, func(v int) interface{} { return secC[v] }))
	add(sv("string", true, func(v int) interface{} { return secStr[v] }))
	add(sv("stringLF", true, func(v int) interface{} { return secStrLF[v] }))
	add(sv("stringPlain", true, func(v int) interface{} { return secPlain[v] }))
	add(sv("stringEmpty", true, func(v int) interface{} { return "" }))
	add(sv("stringRedactedMarker", true, func(v int) interface{} { return [2]string{mRed + "\n", mEnd + mStart + "p\n"}[v] }))
	add(sv("[]byte", true, func(v int) interface{} { return []byte(secBytes[v]) }))
	add(sv("[]byte(nil)", true, func(v int) interface{} { return []byte(nil) }))
	add(sv("nil", true, func(v int) interface{} { return nil }))
	// --- named kinds
	add(sv("namedInt", true, func(v int) interface{} { return namedInt2(secInt[v]) }))
	add(sv("namedStr", true, func(v int) interface{} { return namedStr(secStr[v]) }))
	add(sv("namedBool", true, func(v int) interface{} { return namedBool(secB[v]) }))
	add(sv("namedFloat", true, func(v int) interface{} { return namedFloat(secF[v]) }))
	add(sv("namedBytes", true, func(v int) interface{} { return namedBytes(secBytes[v]) }))
	// --- containers
	add(sv("[]int", true, func(v int) interface{} { return []int{secInt[v], 7 + v} }))
	add(sv("[]int(nil)", true, func(v int) interface{} { return []int(nil) }))
	add(sv("[]int{}", true, func(v int) interface{} { return []int{} }))
	add(sv("[2]string", true, func(v int) interface{} { return [2]string{secStr[v], secStrLF[v]} }))
	add(sv("[3]byte", true, func(v int) interface{} { return [3]byte{'h' + byte(v), 'a' + byte(v), 0} }))
	add(sv("[]string", true, func(v int) interface{} { return []string{secPlain[v], "", secStrLF[v]} }))
	add(sv("[]interface{}", true, func(v int) interface{} { return []interface{}{secInt[v], secStr[v], nil, secF[v], []byte(secBytes[v])} }))
	add(sv("[][]int", true, func(v int) interface{} { return [][]int{{secInt[v]}, nil, {1 + v, 2 + v}} }))
	add(sv("namedSlice", true, func(v int) interface{} { return namedSlice{secInt[v]} }))
	add(sv("map[string]int", true, func(v int) interface{} { return map[string]int{secKeyA[v]: secInt[v], secKeyB[v]: 5 + v} }))
	add(sv("map[int]string", true, func(v int) interface{} { return map[int]string{1 + 10*v: secStr[v], 2 + 10*v: secStrLF[v]} }))
	add(sv("map[string]interface{}", true, func(v int) interface{} {
		return map[string]interface{}{secKeyA[v]: secStr[v], secKeyB[v]: []int{secInt[v]}}
	}))
	add(sv("map(nil)", true, func(v int) interface{} { return map[string]int(nil) }))
	add(sv("namedMap", true, func(v int) interface{} { return namedMap{secKeyA[v]: secInt[v]} }))
	add(sv("struct", true, func(v int) interface{} { return structT{secInt[v], secStr[v], secStrLF[v]} }))
	add(sv("structNilIface", true, func(v int) interface{} { return structT{secInt[v], "", nil} }))
	add(sv("embedStruct", true, func(v int) interface{} { return embedT{structInner{secInt[v], 3 + v}, secPlain[v]} }))
	add(sv("anonStruct", true, func(v int) interface{} {
		return struct {
			P *int
			M map[string]bool
			S []string
		}{nil, map[string]bool{secKeyA[v]: secB[v]}, []string{secStr[v]}}
	}))
	ad := func(v Val) { v.Addr = true; add(v) }
	ad(sv("&struct", true, func(v int) interface{} { return &structT{secInt[v], secStr[v], nil} }))
	ad(sv("&[]int", true, func(v int) interface{} { return &[]int{secInt[v]} }))
	ad(sv("&map", true, func(v int) interface{} { return &map[string]int{secKeyA[v]: secInt[v]} }))
	ad(sv("*int", true, func(v int) interface{} { x := secInt[v]; return &x }))
	ad(sv("**struct", true, func(v int) interface{} { p := &structT{secInt[v], "", nil}; return &p }))
	add(sv("(*int)(nil)", true, func(v int) interface{} { return (*int)(nil) }))
	add(sv("(*struct)(nil)", true, func(v int) interface{} { return (*structT)(nil) }))
	ad(sv("chan", true, func(v int) interface{} { return make(chan int) }))
	add(sv("chan(nil)", true, func(v int) interface{} { return (chan int)(nil) }))
	ad(sv("func", true, func(v int) interface{} { return inf }))
	add(sv("func(nil)", true, func(v int) interface{} { return (func())(nil) }))
	ad(sv("struct{*int}", true, func(v int) interface{} { x := secInt[v]; return struct{ P *int }{&x} }))
	// --- zero values and awkward characters (same in both instantiations where the zero-ness is the point)
	add(sv("zero int", true, func(v int) interface{} { return 0 }))
	add(sv("zero float", true, func(v int) interface{} { return 0.0 }))
	add(sv("zero uint8", true, func(v int) interface{} { return uint8(0) }))
	add(sv("[]int with zeros", true, func(v int) interface{} { return []int{0, secInt[v], 0} }))
	add(sv("struct with zero fields", true, func(v int) interface{} { return structT{0, "", 0.0} }))
	add(sv("string quotes/tab/NUL", true, func(v int) interface{} {
		return [2]string{"q\"u\\o\t\x00e`", "Q\"U\\O\t\x00E`"}[v]
	}))
	add(sv("[]byte quotes/NUL", true, func(v int) interface{} { return []byte([2]string{"b\"\x00`", "B\"\x00`"}[v]) }))
	add(sv("self-referential pointer", true, func(v int) interface{} { n := &selfRef{V: secInt[v]}; n.Next = n; return n }))
	// --- map key kinds with extreme values (sorted rendering)
	add(sv("map[uint64] around 2^63", true, func(v int) interface{} {
		return map[uint64]string{1: secPlain[v], 1 << 63: secStr[v], 1<<64 - 1: "z", 1<<63 - 1: "y"}
	}))
	add(sv("map[int64] extremes", true, func(v int) interface{} {
		return map[int64]int{-1 << 63: 1 + v, -1: 2, 0: 3, 1<<63 - 1: secInt[v]}
	}))
	add(sv("map[uint] and uintptr keys", true, func(v int) interface{} {
		return []interface{}{map[uint]int{^uint(0): 1 + v, 2: 2}, map[uintptr]bool{^uintptr(0): secB[v], 1: true}}
	}))
	add(sv("map[uint8]/[int8]/[bool] keys", true, func(v int) interface{} {
		return []interface{}{map[uint8]int{255: 1 + v, 0: 2, 128: 3}, map[int8]int{-128: 1, 127: 2 + v, 0: 3}, map[bool]string{true: secPlain[v], false: "f"}}
	}))
	add(sv("map[float32]/[complex128] keys", true, func(v int) interface{} {
		return []interface{}{map[float32]int{-1.5: 1 + v, 1e30: 2, 0: 3}, map[complex128]int{1 + 2i: 1, 1 - 2i: 2 + v, -3: 3}}
	}))
	add(sv("map[[2]int]/[struct] keys", true, func(v int) interface{} {
		return []interface{}{map[[2]int]int{{2, 1}: 1 + v, {1, 9}: 2, {1, -1}: 3}, map[structInner]string{{2, 1}: secPlain[v], {1, 5}: "b"}}
	}))
	add(sv("map[interface{}] mixed kinds", true, func(v int) interface{} {
		return map[interface{}]int{uint64(1 << 63): 1 + v, uint64(3): 2, "s": 3, 2.5: 4, int8(-1): 5, nil: 6, [1]int{1}: 7}
	}))
	add(sv("map[string] many keys incl. empty", true, func(v int) interface{} {
		return map[string]int{"": 1 + v, "a": 2, "B": 3, "é": 4, "\n": 5, "aa": 6, mStart: 7}
	}))
	// --- further shapes, kinds, lengths
	long0, long1 := strings.Repeat("l", 61)+mStart+"xyz\n"+strings.Repeat("m", 40), strings.Repeat("L", 61)+mEnd+"XYZ\n"+strings.Repeat("M", 40)
	add(sv("string>64 bytes", true, func(v int) interface{} { return [2]string{long0, long1}[v] }))
	add(sv("[]byte>64 bytes", true, func(v int) interface{} { return []byte([2]string{long0, long1}[v]) }))
	add(sv("time.Duration", true, func(v int) interface{} { return [2]time.Duration{1500 * time.Millisecond, -72 * time.Hour}[v] }))
	add(sv("[]time.Duration", true, func(v int) interface{} { return []time.Duration{time.Duration(secInt[v]) * time.Second, 0} }))
	add(sv("float NaN", true, func(v int) interface{} { return [2]float64{math.NaN(), math.Inf(1)}[v] }))
	add(sv("rune edge cases", true, func(v int) interface{} { return [2]int32{0x10ffff, 0xd800}[v] }))
	add(sv("int for %c LF", true, func(v int) interface{} { return 10 }))
	add(sv("[][]byte", true, func(v int) interface{} { return [][]byte{[]byte(secPlain[v]), nil, []byte(secBytes[v])} }))
	add(sv("[2][2]int", true, func(v int) interface{} { return [2][2]int{{secInt[v], 1}, {2, 3 + v}} }))
	add(sv("[0]int", true, func(v int) interface{} { return [0]int{} }))
	add(sv("struct{}", true, func(v int) interface{} { return struct{}{} }))
	add(sv("map 4 keys", true, func(v int) interface{} {
		return map[string]interface{}{"a" + secKeyA[v]: secInt[v], "b" + secKeyB[v]: secStrLF[v], "c": nil, "d" + secKeyA[v]: []int{v + 1}}
	}))
	add(sv("map[float64]int NaN keys", true, func(v int) interface{} { return map[float64]int{math.NaN(): 1 + v, secF[v]: 2} }))
	add(sv("map[interface{}]interface{}", true, func(v int) interface{} {
		return map[interface{}]interface{}{1 + v: secStr[v], secKeyA[v]: secInt[v], true: nil}
	}))
	add(sv("deep nesting", true, func(v int) interface{} {
		return []interface{}{map[string]interface{}{secKeyA[v]: []interface{}{structT{secInt[v], secStr[v], []string{secStrLF[v]}}}}}
	}))
	add(sv("struct embedded pointer", true, func(v int) interface{} {
		return struct {
			*structInner
			N namedStr
		}{nil, namedStr(secPlain[v])}
	}))
	add(sv("[]*int nil", true, func(v int) interface{} { return []*int{nil, nil} }))
	add(sv("[]fmt.Stringer{nil,x}", true, func(v int) interface{} { return []fmt.Stringer{nil, strT{secStr[v]}} }))
	add(sv("complex in container", true, func(v int) interface{} { return []interface{}{secC[v], complex64(secC[v])} }))
	add(sv("uint8 named slice", true, func(v int) interface{} { return []namedU8{namedU8('h' + v), 'a'} }))
	// --- values whose shortest rendering depends on the width of their own kind
	add(sv("float32 shortest", true, func(v int) interface{} { return [2]float32{0.1, 3.14}[v] }))
	add(sv("float64 exponents", true, func(v int) interface{} { return [2]float64{1e21, 1e-7}[v] }))
	add(sv("complex64 shortest", true, func(v int) interface{} { return [2]complex64{complex(0.1, 0.3), complex(3.14, -1e-7)}[v] }))
	add(sv("float64 NaN", true, func(v int) interface{} { return [2]float64{nan(), 5}[v] }))
	// --- text that reaches the output through the TYPE, not the value: struct tags are arbitrary strings and are
	// part of the type's name (%T, %#v)
	type tagged = struct {
		A string "t‹ag›"
		B int    "› ×\n"
	}
	add(sv("struct with markers in field tags", true, func(v int) interface{} { return tagged{secStr[v], secInt[v]} }))
	add(sv("*struct with markers in field tags", true, func(v int) interface{} { return &tagged{secStr[v], secInt[v]} }))
	add(sv("[]struct / map keyed by struct with markers in field tags", true, func(v int) interface{} {
		return []interface{}{[]tagged{{secStr[v], 1}}, map[tagged]bool{{"k", secInt[v]}: true}, (*tagged)(nil), func(tagged) {}}
	}))
	add(sv("reflect.StructOf type with markers in a tag", true, func(v int) interface{} {
		t := reflect.StructOf([]reflect.StructField{{Name: "X", Type: reflect.TypeOf(""), Tag: reflect.StructTag("‹›")}})
		x := reflect.New(t).Elem()
		x.Field(0).SetString(secStr[v])
		return x.Interface()
	}))
	// --- integers whose low 8/16/32 bits alone are a printable character (truncating conversions on the %c/%q/%U paths)
	add(sv("integers above a truncation boundary", true, func(v int) interface{} {
		return []interface{}{[2]uint64{0x100000041, 0x20001F600}[v], [2]int64{0x7F000000E9, -0xFFFFFFBF}[v], [2]uint32{0x10041, 0x20042}[v], [2]uint16{0x141, 0x242}[v], [2]uint64{1<<63 + 'x', 1<<40 + 'y'}[v]}
	}))
	add(sv("uint64 above 2^32 with printable low bits", true, func(v int) interface{} { return [2]uint64{0x100000041, 0x300000043}[v] }))
	// --- containers whose element type is safe but whose other half is not
	add(sv("map[secret string]SafeValue", true, func(v int) interface{} {
		return []interface{}{map[string]safeIntT{secPlain[v]: 7}, map[string]redact.SafeString{secStr[v]: "pub"}, map[namedStr]safeT{namedStr(secPlain[v]): "p"}}
	}))
	add(sv("map[SafeValue]secret", true, func(v int) interface{} {
		return []interface{}{map[safeT]string{"pub": secStr[v]}, map[safeIntT][]byte{3: []byte(secPlain[v])}}
	}))
	add(sv("struct{[]SafeValue; secret; map[string]SafeValue}", true, func(v int) interface{} {
		return struct {
			L []safeT
			S string
			M map[string]safeIntT
		}{[]safeT{"a", "b"}, secStr[v], map[string]safeIntT{secPlain[v]: 1}}
	}))
	// --- byte arrays where reflection is restricted: by value, behind unexported fields, with a named element type, as map values
	add(sv("byte arrays: unexported field, named element type, map value, nested", true, func(v int) interface{} {
		var a [4]byte
		copy(a[:], secPlain[v])
		return []interface{}{struct{ id [4]byte }{a}, [3]namedU8{namedU8(secPlain[v][0]), 'b', 'c'}, map[string][2]byte{"k": {a[0], a[1]}}, [2][2]byte{{a[0], 1}, {2, a[1]}}, struct {
			A [2]byte
			b [2]namedU8
		}{[2]byte{a[0], a[1]}, [2]namedU8{namedU8(a[2]), 7}}}
	}))
	add(sv("struct with an unexported byte array", true, func(v int) interface{} {
		var a [5]byte
		copy(a[:], secPlain[v])
		return struct{ id [5]byte }{a}
	}))
	add(sv("array of a named byte type", true, func(v int) interface{} { return [3]namedU8{namedU8(secPlain[v][0]), namedU8(secPlain[v][1]), 'z'} }))
	// --- maps inside maps (the key sorter runs recursively; inner maps smaller, equal and larger than the outer)
	add(sv("maps holding maps", true, func(v int) interface{} {
		return []interface{}{
			map[string]map[string]int{"a": {"x": secInt[v], "y": 2}, "b": {"z": 3}},
			map[string]interface{}{"a": map[string]int{"p": 1, "q": secInt[v], "r": 3}, "b": []interface{}{map[int]string{1: secPlain[v], 2: "t"}}, "c": map[string]int{}},
			map[int]map[int]map[int]string{1: {1: {1: secPlain[v], 2: "b"}, 2: {3: "c"}}, 2: {4: {5: "d", 6: "e", 7: "f"}}},
		}
	}))
	// --- several classifications at once (see dblSafeT)
	add(sv("registered+SafeValue elements before a secret", true, func(v int) interface{} {
		return []interface{}{dblSafeT(7), secStr[v], []dblSafeT{1, 2}, secInt[v], map[dblSafeT]string{3: secPlain[v]}, struct {
			D dblSafeT
			S string
		}{4, secStr[v]}}
	}))
	// --- reflect.Value
	add(sv("reflect(int)", true, func(v int) interface{} { return reflect.ValueOf(secInt[v]) }))
	add(sv("reflect(string)", true, func(v int) interface{} { return reflect.ValueOf(secStrLF[v]) }))
	add(sv("reflect(struct)", true, func(v int) interface{} { return reflect.ValueOf(structT{secInt[v], secStr[v], secF[v]}) }))
	add(sv("reflect(zero)", true, func(v int) interface{} { return reflect.Value{} }))
	add(sv("reflect(nilmap)", true, func(v int) interface{} { return reflect.ValueOf(map[string]int(nil)) }))
	add(sv("reflect(unexported field)", true, func(v int) interface{} { return reflect.ValueOf(structT{1, secStr[v], nil}).Field(1) }))
	// reflect.Value operands of kind Interface (taken from an interface-typed variable, field, element): the
	// printer sees an Interface-kind value at depth 0, which reflect.ValueOf(x) never produces
	add(sv("reflect(interface holding string/int)", true, func(v int) interface{} {
		var a interface{} = secStr[v]
		return reflect.ValueOf(&a).Elem()
	}))
	add(sv("reflect(interface field of struct)", true, func(v int) interface{} {
		return reflect.ValueOf(structT{1, "b", secStr[v]}).Field(2)
	}))
	add(sv("reflect(nil interface)", true, func(v int) interface{} {
		var a interface{}
		return reflect.ValueOf(&a).Elem()
	}))
	add(sv("reflect(interface holding *struct)", false, func(v int) interface{} {
		var a interface{} = &structInner{secInt[v], 2}
		return reflect.ValueOf(&a).Elem()
	}))
	add(Val{Name: "Safe(nil)", Mk: func(v int) interface{} { return redact.Safe(nil) }, Own: true, WrapOnly: true, Passive: true})
	add(Val{Name: "Unsafe(nil)", Mk: func(v int) interface{} { return redact.Unsafe(nil) }, Own: true, WrapOnly: true, Passive: true})
	add(Val{Name: "wrappers nested in containers (struct under Safe, wrapper behind an unexported field, SafeFormatter under Unsafe)", Mk: func(v int) interface{} {
		return []interface{}{redact.Safe(structT{1, "x", nil}), struct{ a interface{} }{redact.Safe(1)}, redact.Unsafe(structInner{1, 2}), struct{ u interface{} }{redact.Unsafe("w")}, redact.Safe(safeFmtT{"k", "v"})}
	}, Own: true, WrapOnly: false, Passive: true})
	add(Val{Name: "wrappers nested in interface slots (struct under Safe, struct under Unsafe, Stringer under Safe)", Mk: func(v int) interface{} {
		return []interface{}{redact.Safe(structT{1, "x", nil}), redact.Unsafe(structInner{1, 2}), redact.Safe(strT{"s"}), map[string]interface{}{"k": redact.Safe(structInner{3, 4})}}
	}, Own: true, WrapOnly: true, Passive: false, Fmt: true})
	// safe text ending in ill-formed UTF-8 without any marker lead byte (the final '?' guard is the only escaping it needs)
	add(Val{Name: "Safe(string ending in a dangling byte)", Mk: func(v int) interface{} { return redact.Safe("id=\xff") }, Own: true, WrapOnly: true, Passive: true})
	add(Val{Name: "SafeValue string ending in a dangling lead byte", Mk: func(v int) interface{} { return safeT("caf\xc3") }, Own: true, WrapOnly: true, Passive: true})
	// --- method-bearing
	m := func(name string, fmtOK bool, mk func(v int) interface{}) Val {
		return Val{Name: name, Mk: mk, Fmt: fmtOK}
	}
	add(m("Stringer", true, func(v int) interface{} { return strT{secStrLF[v]} }))
	add(m("*Stringer", true, func(v int) interface{} { return &ptrStrT{secStr[v]} }))
	add(m("(*Stringer)(nil)", true, func(v int) interface{} { return (*ptrStrT)(nil) }))
	add(m("ptrStringerByValue", true, func(v int) interface{} { return ptrStrT{secStr[v]} }))
	add(m("error", true, func(v int) interface{} { return errT{secStrLF[v]} }))
	add(m("errors.New", true, func(v int) interface{} { return errors.New(secStr[v]) }))
	add(m("wrapErr", true, func(v int) interface{} { return wrapErrT{secPlain[v], errT{secStr[v]}} }))
	add(m("(*errT)(nil)", true, func(v int) interface{} { return (*errT)(nil) }))
	add(m("reflect(interface holding error)", true, func(v int) interface{} {
		var e error = errT{secStr[v]}
		return reflect.ValueOf(&e).Elem()
	}))
	add(m("reflect(interface elements holding Stringer/Formatter/GoStringer)", true, func(v int) interface{} {
		xs := []interface{}{strT{secStr[v]}, fmtT{secPlain[v]}, goT{secStr[v]}}
		return []interface{}{reflect.ValueOf(xs).Index(0), reflect.ValueOf(xs).Index(1), reflect.ValueOf(xs).Index(2)}
	}))
	add(Val{Name: "Stringer panicking with a runtime error that embeds the secret index", Mk: func(v int) interface{} { return idxStrT(secInt[v]*secInt[v]%9000 + 100) }, Fmt: true, PanicMid: true})
	add(Val{Name: "[]Stringer/Formatter panicking with index / slice-bounds runtime errors", Mk: func(v int) interface{} {
		return []interface{}{idxStrT(4711 + 3375*v), sliceFmtT{4711 + 3375*v}, "tail"}
	}, Fmt: true, PanicMid: true})
	add(m("user type with a GetValue() method (not a wrapper)", true, func(v int) interface{} { return getValT{42, secStr[v]} }))
	add(Val{Name: "user type with GetValue() returning a redactable", Mk: func(v int) interface{} {
		return getValT{redact.RedactableString("r" + mStart + "x" + mEnd), secPlain[v]}
	}, Own: true})
	add(m("[]user types with GetValue()/look-alike methods", true, func(v int) interface{} {
		return []interface{}{getValT{nil, secStr[v]}, lookalikeT{secPlain[v]}, &getValT{getValT{1, "in"}, secPlain[v]}}
	}))
	add(m("user type with look-alike methods (SafeFormat(int), Unwrap, Cause, Redact...)", true, func(v int) interface{} { return lookalikeT{secStr[v]} }))
	add(m("GoStringer", true, func(v int) interface{} { return goT{secStrLF[v]} }))
	add(m("Formatter", true, func(v int) interface{} { return fmtT{secStrLF[v]} }))
	add(m("Formatter via io.WriteString", true, func(v int) interface{} { return fmtWST{secStrLF[v]} }))
	add(m("[]Formatter via io.WriteString", true, func(v int) interface{} { return []interface{}{safeT("ok"), fmtWST{secStr[v]}, secPlain[v]} }))
	add(m("int-kind error", true, func(v int) interface{} { return errnoT(2 + v) }))
	add(m("string-kind error", true, func(v int) interface{} { return strKindErr(secPlain[v]) }))
	add(m("slice-kind error", true, func(v int) interface{} { return sliceErr{secPlain[v], secStr[v]} }))
	add(m("[]int-kind error", true, func(v int) interface{} { return []error{errnoT(7 + v), nil} }))
	// re-entrant user methods: they call back into the library's top-level functions while a print is in progress
	add(m("Stringer calling Sprintf", true, func(v int) interface{} { return reStrT{secStrLF[v]} }))
	add(m("Formatter calling Fprintf on the state", true, func(v int) interface{} { return reFmtT{secStr[v]} }))
	add(m("[]Stringer calling Sprintf", true, func(v int) interface{} { return []interface{}{reStrT{secPlain[v]}, secInt[v], reStrT{secStr[v]}} }))
	add(m("recFormatter", true, func(v int) interface{} { return recFmtT{secPlain[v]} }))
	add(m("error+Formatter", true, func(v int) interface{} { return errFmtT{secStr[v]} }))
	add(m("error+Stringer", true, func(v int) interface{} { return strErrT{secStr[v]} }))
	add(m("[]Stringer", true, func(v int) interface{} { return []strT{{secStr[v]}, {secStrLF[v]}} }))
	add(m("[]error", true, func(v int) interface{} { return []error{errT{secStr[v]}, nil, errors.New(secPlain[v])} }))
	add(m("struct{Stringer,err}", true, func(v int) interface{} {
		return struct {
			S fmt.Stringer
			E error
			u strT
		}{strT{secStr[v]}, errT{secPlain[v]}, strT{secStrLF[v]}}
	}))
	add(m("map[Stringer]err", true, func(v int) interface{} { return map[strT]error{{secKeyA[v]}: errT{secStr[v]}} }))
	add(m("reflect(Stringer)", true, func(v int) interface{} { return reflect.ValueOf(strT{secStr[v]}) }))
	// --- panicking methods (payload is unsafe data)
	add(m("panic String(str)", true, func(v int) interface{} { return panStrT{"boom " + secStrLF[v]} }))
	add(m("panic String(err)", true, func(v int) interface{} { return panStrT{errors.New("perr " + secStr[v])} }))
	add(m("panic String(int)", true, func(v int) interface{} { return panStrT{secInt[v]} }))
	add(m("panic Error", true, func(v int) interface{} { return panErrT{"eboom " + secStr[v]} }))
	add(m("panic Format", true, func(v int) interface{} { return panFmtT{"fboom " + secStr[v]} }))
	add(m("panic GoString", true, func(v int) interface{} { return panGoT{"gboom " + secStr[v]} }))
	add(m("panic String(nil map write)", true, func(v int) interface{} { return panStrT{runtimeErr()} }))
	add(m("double panic", true, func(v int) interface{} { return panStrT{panPayT{secStr[v]}} }))
	pm := func(v Val) { v.PanicMid = true; add(v) }
	pm(m("[]iface{panic,err}", true, func(v int) interface{} {
		return []interface{}{panStrT{"boom " + secStr[v]}, errT{secStrLF[v]}, secInt[v]}
	}))
	pm(m("struct{panic;S}", true, func(v int) interface{} {
		return struct {
			P fmt.Stringer
			S string
		}{panStrT{"boom " + secStr[v]}, secStr[v]}
	}))
	add(m("[]iface{err,panic}", true, func(v int) interface{} { return []interface{}{errT{secStr[v]}, panStrT{"boom " + secPlain[v]}} }))
	// --- SafeValue-marked types (fmt-compatible: fmt prints them like their underlying kind)
	add(sv("safeT", true, func(v int) interface{} { return safeT("pub" + mStart + "lic\n!") }))
	add(sv("safeIntT", true, func(v int) interface{} { return safeIntT(99) }))
	add(sv("SafeString", true, func(v int) interface{} { return redact.SafeString("safe str") }))
	add(sv("SafeInt", true, func(v int) interface{} { return redact.SafeInt(-5) }))
	add(sv("SafeRune", true, func(v int) interface{} { return redact.SafeRune('☃') }))
	// safe integers whose VALUE is a marker code point (%c, %q, %#U print the character itself)
	add(sv("SafeRune(start marker)", true, func(v int) interface{} { return redact.SafeRune(0x2039) }))
	add(sv("SafeInt(end marker)", true, func(v int) interface{} { return redact.SafeInt(0x203a) }))
	add(sv("SafeUint(start marker)", true, func(v int) interface{} { return redact.SafeUint(0x2039) }))
	add(sv("struct{SafeRune end marker; unsafe}", true, func(v int) interface{} {
		return struct {
			R redact.SafeRune
			U string
		}{0x203a, secPlain[v]}
	}))
	add(sv("rune start/end marker", true, func(v int) interface{} { return [2]rune{0x2039, 0x203a}[v] }))
	add(sv("[]SafeString", true, func(v int) interface{} { return []redact.SafeString{"a", "b\nc"} }))
	add(sv("struct{safeT;unsafe}", true, func(v int) interface{} {
		return struct {
			S safeT
			U string
			I interface{}
		}{"pub", secStr[v], safeIntT(3)}
	}))
	add(sv("map[safeT]string", true, func(v int) interface{} { return map[safeT]string{"k1": secStr[v], "k2": secPlain[v]} }))
	add(sv("[]iface{safe,unsafe}", true, func(v int) interface{} { return []interface{}{safeT("p"), secStr[v], safeIntT(1), secInt[v]} }))
	add(sv("reflect(safeT)", true, func(v int) interface{} { return reflect.ValueOf(safeT("rv")) }))
	// --- redact-specific rendering (not fmt-comparable)
	o := func(name string, mk func(v int) interface{}) Val { return Val{Name: name, Mk: mk, Own: true} }
	ow := func(name string, mk func(v int) interface{}) Val {
		return Val{Name: name, Mk: mk, Own: true, WrapOnly: true}
	}
	add(ow("Safe(str)", func(v int) interface{} { return redact.Safe("pub" + mEnd + "\nlic") }))
	add(ow("Safe(int)", func(v int) interface{} { return redact.Safe(-77) }))
	add(ow("Safe([]byte)", func(v int) interface{} { return redact.Safe(sharedPubBytes) }))
	add(ow("Safe(struct)", func(v int) interface{} { return redact.Safe(structT{1, "p", 2.5}) }))
	add(ow("Safe(Stringer)", func(v int) interface{} { return redact.Safe(strT{"pubstr"}) }))
	add(ow("Safe(err)", func(v int) interface{} { return redact.Safe(errT{"puberr"}) }))
	add(ow("Safe(nil)", func(v int) interface{} { return redact.Safe(nil) }))
	add(ow("Safe(int = start marker)", func(v int) interface{} { return redact.Safe(0x2039) }))
	add(ow("Safe([]rune with both markers)", func(v int) interface{} { return redact.Safe(sharedMarkerRunes) }))
	add(ow("Unsafe(safeT)", func(v int) interface{} { return redact.Unsafe(safeT(secPlain[v])) }))
	add(ow("Unsafe(Safe(str))", func(v int) interface{} { return redact.Unsafe(redact.Safe(secStr[v])) }))
	add(ow("Safe(Unsafe(str))", func(v int) interface{} { return redact.Safe(redact.Unsafe("pub")) }))
	add(o("Unsafe(Redactable)", func(v int) interface{} {
		return redact.Unsafe(redact.RedactableString(secPlain[v] + mStart + secPlain[1-v] + mEnd))
	}))
	add(o("Unsafe(SafeFormatter)", func(v int) interface{} { return redact.Unsafe(safeFmtT{secPlain[v], secStr[v]}) }))
	add(o("Unsafe(Formatter using its fmt.State as SafePrinter)", func(v int) interface{} { return redact.Unsafe(fmtSPT{secStrLF[v]}) }))
	add(ow("Unsafe(nil)", func(v int) interface{} { return redact.Unsafe(nil) }))
	add(o("RedactableString", func(v int) interface{} {
		return redact.RedactableString("pub " + mStart + string(Esc([]byte(secStr[v]))) + mEnd + "\n" + mStart + secPlain[v] + mEnd + " end")
	}))
	add(o("RedactableString(plain)", func(v int) interface{} { return redact.RedactableString("just safe") }))
	add(o("RedactableBytes", func(v int) interface{} { return redact.RedactableBytes(mStart + secPlain[v] + mEnd + "tail") }))
	// redactables whose last bytes are a truncated / invalid UTF-8 sequence (the end-of-output guard applies to
	// copied bytes too, on every route)
	add(o("RedactableString ending in a truncated marker", func(v int) interface{} {
		return redact.RedactableString("id=" + mStart + secPlain[v] + mEnd + "\xe2\x80")
	}))
	add(o("RedactableBytes ending in an invalid byte", func(v int) interface{} {
		return redact.RedactableBytes(mStart + secPlain[v] + mEnd + "t\xff")
	}))
	add(o("RedactableString(empty)", func(v int) interface{} { return redact.RedactableString("") }))
	add(o("[]RedactableString", func(v int) interface{} {
		return []redact.RedactableString{redact.RedactableString(mStart + secPlain[v] + mEnd), "s"}
	}))
	add(func() Val {
		x := o("SafeFormatter", func(v int) interface{} { return safeFmtT{"key", secStrLF[v]} })
		x.UnsafeFmt = true
		return x
	}())
	add(o("*SafeFormatter", func(v int) interface{} { return &safeFmtT{"key", secStr[v]} }))
	add(o("[]SafeFormatter", func(v int) interface{} { return []safeFmtT{{"k1", secStr[v]}, {"k2", secPlain[v]}} }))
	add(o("StringBuilder", func(v int) interface{} {
		var b redact.StringBuilder
		b.SafeString("sb ")
		b.UnsafeString(secStrLF[v])
		return b
	}))
	add(o("*StringBuilder", func(v int) interface{} {
		b := &redact.StringBuilder{}
		b.Printf("n=%s %s", secPlain[v], redact.Safe("ok"))
		return b
	}))
	add(func() Val {
		x := o("SafeMessager", func(v int) interface{} { return safeMsgT{secStr[v]} })
		x.UnsafeFmt = true
		return x
	}())
	add(func() Val {
		x := o("SafeMessager+Stringer / []SafeMessager", func(v int) interface{} {
			return []interface{}{smStrT{secStr[v]}, []safeMsgT{{secPlain[v]}}, map[string]interface{}{"k": smStrT{secPlain[v]}}}
		})
		x.UnsafeFmt = true
		return x
	}())
	add(o("RedactableString starting and ending with an envelope", func(v int) interface{} {
		return redact.RedactableString(mStart + secPlain[v] + mEnd + "mid" + mStart + secStr[v][:3] + mEnd)
	}))
	add(o("SafeFormatter calling top-level Sprintf", func(v int) interface{} {
		return scriptedFn(func(p redact.SafePrinter) {
			p.SafeString("o:")
			p.Print(redact.Sprintf("%s|%d", secStr[v], 3))
			p.UnsafeString(redact.Sprint(secPlain[v]).StripMarkers())
		})
	}))
	add(o("scripted SafeFormatter w/ nested Print", func(v int) interface{} {
		return scriptedFn(func(p redact.SafePrinter) {
			p.SafeString("a=")
			p.Print(secStr[v], redact.Safe(1))
			p.Printf(" %05d|%v", secInt[v], safeFmtT{"k", secPlain[v]})
			fmt.Fprintf(p, "raw %s", secStrLF[v])
		})
	}))
	add(o("SafeFormatter panics midway", func(v int) interface{} {
		return scriptedFn(func(p redact.SafePrinter) {
			p.SafeString("before ")
			p.UnsafeString(secStr[v])
			panic("mid " + secPlain[v])
		})
	}))
	add(ow("[]iface{Safe,Unsafe(x),plain}", func(v int) interface{} {
		return []interface{}{redact.Safe("p"), redact.Unsafe(secPlain[v]), secStr[v], redact.Unsafe(safeT("q"))}
	}))
	add(ow("struct{Unsafe field}", func(v int) interface{} {
		return struct{ A, B interface{} }{redact.Unsafe(secInt[v]), safeT("pub")}
	}))
	add(o("[]iface{Safe,unsafe,Redactable}", func(v int) interface{} {
		return []interface{}{redact.Safe("p"), secStr[v], redact.RedactableString(mStart + secPlain[v] + mEnd)}
	}))
	add(ow("struct{Safe;Unsafe}", func(v int) interface{} {
		return struct{ A, B, c interface{} }{redact.Safe("p"), redact.Unsafe(safeT(secPlain[v])), redact.Safe("pubc")}
	}))
	add(ow("map[string]Safe", func(v int) interface{} {
		return map[string]interface{}{secKeyA[v]: redact.Safe("p1"), secKeyB[v]: safeT("p2")}
	}))
	return u
}

var sharedPubBytes = []byte("pb") // declared safe by the caller: shared by both instantiations (its address is public too)

func inf(s int) float64 {
	x := 1e308
	x *= 10
	if s < 0 {
		return -x
	}
	return x
}

func runtimeErr() (e interface{}) {
	defer func() { e = recover() }()
	var m map[string]int
	m["x"] = 1
	return nil
}

func fmtUniverse() []Val {
	var r []Val
	for _, v := range universe() {
		if v.Fmt {
			r = append(r, v)
		}
	}
	return r
}

func nan() float64 { return math.NaN() }

// getValT: a user type that happens to have the accessor the Safe/Unsafe wrappers have; it is NOT a wrapper
type getValT struct {
	inner interface{}
	s     string
}

func (g getValT) GetValue() interface{} { return g.inner }
func (g getValT) String() string        { return "setting(" + g.s + ")" }

// lookalikeT: methods with the NAMES the library dispatches on but other signatures, plus Unwrap/Cause/Is
type lookalikeT struct{ s string }

func (l lookalikeT) SafeFormat(x int) string   { return "sf" }
func (l lookalikeT) SafeMessage(x int) string  { return "sm" }
func (l lookalikeT) Redact() string            { return "rd" }
func (l lookalikeT) StripMarkers() string      { return "st" }
func (l lookalikeT) Unwrap() error             { return errT{"unwrapped"} }
func (l lookalikeT) Cause() error              { return errT{"cause"} }
func (l lookalikeT) String() string            { return "look(" + l.s + ")" }
func (l lookalikeT) GetValue() (string, error) { return "gv", nil }

// smStrT: a SafeMessager that is also a Stringer (fmt prints String(), redact prints the message - except under Unsafe)
type smStrT struct{ s string }

func (m smStrT) SafeMessage() string { return "account" }
func (m smStrT) String() string      { return "account(" + m.s + ")" }

// idxStrT: the enum-with-name-table idiom; an out-of-range value panics with a runtime error whose text embeds the value
type idxStrT int

var idxNames = []string{"zero", "one", "two"}

func (i idxStrT) String() string { return idxNames[i] }

type sliceFmtT struct{ n int }

func (s sliceFmtT) Format(st fmt.State, _ rune) { fmt.Fprint(st, "x", idxNames[0][:s.n]) }

// dblSafeT is safe twice over: it has the SafeValue marker method AND the checks that use it register its type
// (dblSafeRegister). A value must not become "more" than safe by being classified twice.
type dblSafeT int

func (dblSafeT) SafeValue() {}

type dblSafeStrT struct{ s string }

func (dblSafeStrT) SafeValue()       {}
func (d dblSafeStrT) String() string { return "D<" + d.s + ">" }

func dblSafeRegister() {
	redact.RegisterSafeType(reflect.TypeOf(dblSafeT(0)))
	redact.RegisterSafeType(reflect.TypeOf(dblSafeStrT{}))
}

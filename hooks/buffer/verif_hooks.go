//go:build verif
// +build verif

// Injected by /verif/check with `go build -overlay`; never committed to the repository.
package buffer

// VState is a snapshot of the hidden state of a Buffer.
type VState struct {
	Buf        []byte
	ValidUntil int
	Mode       OutputMode
	MarkerOpen bool
	Cap        int
	Nil        bool
}

// VerifState returns a deep snapshot of the buffer's hidden state.
func (b *Buffer) VerifState() VState {
	return VState{
		Buf:        append([]byte(nil), b.buf...),
		ValidUntil: b.validUntil,
		Mode:       b.mode,
		MarkerOpen: b.markerOpen,
		Cap:        cap(b.buf),
		Nil:        b.buf == nil,
	}
}

// VerifClone returns an independent copy with the same length AND capacity.
func (b *Buffer) VerifClone() Buffer {
	c := *b
	if b.buf != nil {
		c.buf = make([]byte, len(b.buf), cap(b.buf))
		copy(c.buf, b.buf)
	}
	return c
}

// VerifRawBuf exposes the live slice (aliasing the buffer) for aliasing checks.
func (b *Buffer) VerifRawBuf() []byte { return b.buf }

// VerifYield, when set, is called at the start of every write (scheduling point).
var VerifYield func()

func verifYield() {
	if VerifYield != nil {
		VerifYield()
	}
}

// VerifMake rebuilds a Buffer from a snapshot (replay of explicit-state cases).
func VerifMake(st VState) Buffer {
	var b Buffer
	if !st.Nil {
		c := st.Cap
		if c < len(st.Buf) {
			c = len(st.Buf)
		}
		b.buf = make([]byte, len(st.Buf), c)
		copy(b.buf, st.Buf)
	}
	b.validUntil = st.ValidUntil
	b.mode = st.Mode
	b.markerOpen = st.MarkerOpen
	return b
}

//go:build verif
// +build verif

// Injected by /verif/check with `go build -overlay`; never committed to the repository.
package rfmt

import (
	stdfmt "fmt"
	"reflect"
)

// VerifResetSafeTypes empties the safe-type registry (configuration changes in C05).
func VerifResetSafeTypes() { safeTypeRegistry = map[reflect.Type]bool{} }

// VerifHookInstalled reports whether an error hook is installed.
func VerifHookInstalled() bool { return redactErrorFn != nil }

// VerifDump renders every per-call field of a pooled printer (x must be *pp).
func VerifDump(x interface{}) string {
	p, ok := x.(*pp)
	if !ok || p == nil {
		return stdfmt.Sprintf("<%T>", x)
	}
	st := p.buf.VerifState()
	return stdfmt.Sprintf("ov=%d arg=%v val=%v reord=%v good=%v pan=%v err=%v wrapErrs=%v wrapped=%v flags=%+v wid=%d prec=%d | len=%d cap=%d nil=%v vu=%d mode=%d open=%v",
		p.override, p.arg != nil, p.value.IsValid(), p.reordered, p.goodArgNum, p.panicking, p.erroring, p.wrapErrs, p.wrappedErr != nil,
		p.fmt.fmtFlags, p.fmt.wid, p.fmt.prec,
		len(st.Buf), st.Cap, st.Nil, st.ValidUntil, st.Mode, st.MarkerOpen)
}

// VerifClean reports whether a pooled printer is in the state a fresh one would
// be in as far as the NEXT call can observe (fields not re-initialised by newPrinter).
func VerifClean(x interface{}) (bool, string) {
	p, ok := x.(*pp)
	if !ok || p == nil {
		return false, "not a printer"
	}
	st := p.buf.VerifState()
	switch {
	case p.override != noOverride:
		return false, "override left set"
	case p.wrappedErr != nil:
		return false, "wrappedErr left set"
	case len(st.Buf) != 0:
		return false, "buffer not empty"
	case st.MarkerOpen:
		return false, "markerOpen left set"
	case st.Mode != 0:
		return false, "mode not reset"
	case st.ValidUntil != 0:
		return false, "validUntil not reset"
	}
	return true, ""
}

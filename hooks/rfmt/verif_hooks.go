//go:build verif
// +build verif

// Injected by /verif/check with `go build -overlay`; never committed to the repository.
package rfmt

import (
	stdfmt "fmt"
	"reflect"
	"strings"
)

// VerifResetSafeTypes empties the safe-type registry (configuration changes in C05).
func VerifResetSafeTypes() { safeTypeRegistry = map[reflect.Type]bool{} }

// VerifHookInstalled reports whether an error hook is installed.
func VerifHookInstalled() bool { return redactErrorFn != nil }

// VerifDump renders every field of a pooled printer, by reflection (so that it
// does not depend on the names of the printer's fields): scalars by value,
// pointers/interfaces/funcs as nil-or-set, slices as len/cap, structs recursively.
func VerifDump(x interface{}) string {
	v := reflect.ValueOf(x)
	for v.Kind() == reflect.Ptr && !v.IsNil() {
		v = v.Elem()
	}
	var b strings.Builder
	dumpValue(&b, v, 0)
	return b.String()
}

func dumpValue(b *strings.Builder, v reflect.Value, depth int) {
	if depth > 6 {
		b.WriteString("…")
		return
	}
	switch v.Kind() {
	case reflect.Bool:
		stdfmt.Fprintf(b, "%v", v.Bool())
	case reflect.Int, reflect.Int8, reflect.Int16, reflect.Int32, reflect.Int64:
		stdfmt.Fprintf(b, "%d", v.Int())
	case reflect.Uint, reflect.Uint8, reflect.Uint16, reflect.Uint32, reflect.Uint64, reflect.Uintptr:
		stdfmt.Fprintf(b, "%d", v.Uint())
	case reflect.Float32, reflect.Float64:
		stdfmt.Fprintf(b, "%g", v.Float())
	case reflect.String:
		stdfmt.Fprintf(b, "%q", v.String())
	case reflect.Slice:
		if v.IsNil() {
			b.WriteString("nil[]")
		} else {
			stdfmt.Fprintf(b, "[len=%d cap=%d]", v.Len(), v.Cap())
		}
	case reflect.Array:
		if v.Len() > 0 && v.Type().Elem().Kind() == reflect.Uint8 {
			b.WriteString("[bytes]") // scratch space, contents are not state
			return
		}
		b.WriteString("[")
		for i := 0; i < v.Len(); i++ {
			dumpValue(b, v.Index(i), depth+1)
			b.WriteString(",")
		}
		b.WriteString("]")
	case reflect.Struct:
		if v.Type() == reflect.TypeOf(reflect.Value{}) {
			// a reflect.Value field: valid or not
			stdfmt.Fprintf(b, "reflect.Value(set=%v)", v.Field(0).Kind() == reflect.Ptr && !v.Field(0).IsNil())
			return
		}
		b.WriteString("{")
		for i := 0; i < v.NumField(); i++ {
			b.WriteString(v.Type().Field(i).Name)
			b.WriteString(":")
			dumpValue(b, v.Field(i), depth+1)
			b.WriteString(" ")
		}
		b.WriteString("}")
	case reflect.Ptr, reflect.Interface, reflect.Func, reflect.Map, reflect.Chan, reflect.UnsafePointer:
		if v.IsNil() {
			b.WriteString("nil")
		} else {
			b.WriteString("set")
		}
	default:
		b.WriteString("?")
	}
}

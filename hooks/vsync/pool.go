//go:build verif
// +build verif

// Package vsync is a controllable stand-in for sync.Pool, substituted for
// "sync" in internal/rfmt/print.go by /verif/check (overlay, never committed).
//
// Without a controller it delegates to a real sync.Pool. With a controller,
// Get may return ANY object previously Put and not yet handed out, or a new
// one: the most general behaviour sync.Pool's contract allows; the controller
// (the explorer) owns the choice.
package vsync

import (
	"sync"
	"sync/atomic"
)

// Everything else print.go may use from package sync is passed through unchanged.
type (
	Map       = sync.Map
	Mutex     = sync.Mutex
	RWMutex   = sync.RWMutex
	Once      = sync.Once
	WaitGroup = sync.WaitGroup
	Cond      = sync.Cond
	Locker    = sync.Locker
)

var (
	NewCond  = sync.NewCond
	OnceFunc = sync.OnceFunc
)

// (sync.OnceValue/OnceValues are generic; the library's go.mod language version, go1.14, cannot call them.)

// Controller decides pool answers and receives scheduling points.
type Controller interface {
	// Choose is called with the number of pooled objects n (>=0) and returns
	// an index in [0,n] : i<n picks pooled[i] (0 = most recently put), n = New.
	Choose(n int) int
	// Point is a scheduling point (before Get and before Put).
	Point(what string)
}

var (
	ctl    atomic.Value // holds *ctlBox
	Gets   int64
	News   int64
	Reuses int64
	Puts   int64
)

type ctlBox struct{ c Controller }

// SetController installs (or with nil removes) the controller and clears the
// controlled free list.
func SetController(c Controller) {
	ctl.Store(&ctlBox{c})
}

func controller() Controller {
	if b, ok := ctl.Load().(*ctlBox); ok && b != nil {
		return b.c
	}
	return nil
}

// Pool mirrors the subset of sync.Pool used by print.go.
type Pool struct {
	New func() interface{}

	real sync.Pool
	mu   sync.Mutex
	free []interface{} // controlled mode: index 0 = most recently put
}

// All pools ever used in controlled mode (one in rfmt on the pinned tree; a change may add more).
var (
	poolsMu sync.Mutex
	pools   []*Pool
)

func (p *Pool) register() {
	poolsMu.Lock()
	for _, q := range pools {
		if q == p {
			poolsMu.Unlock()
			return
		}
	}
	pools = append(pools, p)
	poolsMu.Unlock()
}

// Contents returns the controlled free list of every registered pool.
func Contents() []interface{} {
	poolsMu.Lock()
	defer poolsMu.Unlock()
	var r []interface{}
	for _, p := range pools {
		p.mu.Lock()
		r = append(r, p.free...)
		p.mu.Unlock()
	}
	return r
}

// Clear empties the controlled free lists.
func Clear() {
	poolsMu.Lock()
	defer poolsMu.Unlock()
	for _, p := range pools {
		p.mu.Lock()
		p.free = nil
		p.mu.Unlock()
	}
}

func (p *Pool) Get() interface{} {
	atomic.AddInt64(&Gets, 1)
	c := controller()
	if c == nil {
		x := p.real.Get()
		if x == nil {
			atomic.AddInt64(&News, 1)
			if p.New != nil {
				x = p.New()
			}
		} else {
			atomic.AddInt64(&Reuses, 1)
		}
		return x
	}
	p.register()
	c.Point("Get")
	p.mu.Lock()
	n := len(p.free)
	p.mu.Unlock()
	k := c.Choose(n)
	if k < 0 || k > n {
		panic("vsync: controller chose out of range")
	}
	if k == n {
		atomic.AddInt64(&News, 1)
		if p.New == nil {
			return nil
		}
		return p.New()
	}
	atomic.AddInt64(&Reuses, 1)
	p.mu.Lock()
	x := p.free[k]
	p.free = append(p.free[:k:k], p.free[k+1:]...)
	p.mu.Unlock()
	return x
}

func (p *Pool) Put(x interface{}) {
	atomic.AddInt64(&Puts, 1)
	c := controller()
	if c == nil {
		p.real.Put(x)
		return
	}
	p.register()
	c.Point("Put")
	p.mu.Lock()
	p.free = append([]interface{}{x}, p.free...)
	if Cap > 0 && len(p.free) > Cap {
		p.free = p.free[:Cap] // sync.Pool may drop any object: the oldest is dropped beyond the bound
	}
	p.mu.Unlock()
}

// Cap bounds the controlled free list (0 = unbounded).
var Cap = 3

#!/bin/bash
# setup_cmd: warm the Go build cache (plain and -race) so that checks rebuild in seconds.
cd "$(dirname "$0")"
export GOFLAGS=-mod=mod GOPROXY=off GOSUMDB=off GOTOOLCHAIN=local
VERIF_BUDGET_S=1 ./check SELFTEST quick >/dev/null 2>&1
VERIF_RACE=1 VERIF_BUDGET_S=1 ./check SELFTEST quick >/dev/null 2>&1
echo "setup done"
exit 0

#!/bin/bash
# usage: tools/eval_round.sh <round number> [ids...]   evaluates /tmp/seed<R>-Cxx with worktrees /tmp/wt<R>-Cxx
# For each seed: confirm the demo both ways + suite, apply to /repo, run the property's own check, and if that
# does not report it, every other check until one does. Prints one summary line per seed.
export GOFLAGS=-mod=mod GOPROXY=off GOSUMDB=off GOTOOLCHAIN=local VERIF_NO_EVIDENCE=1
R="$1"; shift
IDS="$@"; [ -z "$IDS" ] && IDS="C01 C02 C03 C04 C05 C06 C07 C08 C09 C10 C11 C12 C13 C14 C15 C16 C17"
ORDER="C01 C04 C09 C02 C05 C06 C12 C16 C10 C08 C11 C13 C14 C15 C17 C03 C07"
cd /verif
for p in $IDS; do
  SEED=/tmp/seed$R-$p; WT=/tmp/wt$R-$p
  [ -f "$SEED/patch.diff" ] || { echo "$p: no patch yet"; continue; }
  DEMO=$(ls $SEED/*_test.go 2>/dev/null | head -1)
  PKG=.
  for d in builder internal/buffer internal/rfmt internal/escape internal/markers internal/fmtforward; do
    if grep -qs "package $(basename $d)" "$DEMO" 2>/dev/null && ! grep -qs "package redact_test" "$DEMO"; then PKG=$d; fi
  done
  grep -qs "package builder_test" "$DEMO" && PKG=builder
  ( cd $WT && git checkout -q -- . && git clean -fdq && cp "$DEMO" "$WT/$PKG/" \
    && (cd $WT/$PKG && go test -vet=off -count=1 -run 'TestSeed' . >/tmp/ev_without.txt 2>&1; echo $? > /tmp/ev_w0) \
    && (git apply "$SEED/patch.diff" || git apply --3way "$SEED/patch.diff") \
    && (cd $WT/$PKG && go test -vet=off -count=1 -run 'TestSeed' . >/tmp/ev_with.txt 2>&1; echo $? > /tmp/ev_w1) \
    && rm -f "$WT/$PKG/$(basename $DEMO)" && (go test -vet=off -count=1 ./... >/tmp/ev_suite.txt 2>&1; echo $? > /tmp/ev_s) )
  W0=$(cat /tmp/ev_w0); W1=$(cat /tmp/ev_w1); S=$(cat /tmp/ev_s)
  CONF="demo-without=$([ $W0 = 0 ] && echo pass || echo FAIL) demo-with=$([ $W1 != 0 ] && echo fail || echo PASSES) suite-with=$([ $S = 0 ] && echo pass || echo FAILS)"
  git -C /repo apply "$SEED/patch.diff" 2>/dev/null || git -C /repo apply --3way "$SEED/patch.diff" 2>/dev/null || { echo "$p: $CONF PATCH DOES NOT APPLY TO /repo"; git -C /repo reset -q --hard HEAD; continue; }
  DET=""; FIRST=""
  for c in $p $(echo $ORDER | tr ' ' '\n' | grep -v "^$p$"); do
    OUT=$(./check $c quick 2>&1); RC=$?
    if [ $RC = 1 ] && echo "$OUT" | grep -q "VIOLATION property=$c"; then
      DET="$DET $c"; FIRST=$(echo "$OUT" | grep -m1 "^  section" | cut -c1-330)
      break
    elif [ $RC != 0 ]; then DET="$DET $c(NO-VERDICT:$RC)"; fi
  done
  git -C /repo reset -q --hard HEAD
  echo "$p: $CONF detected_by:${DET:- NONE}"
  [ -n "$FIRST" ] && echo "    $FIRST"
done

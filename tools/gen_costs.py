#!/usr/bin/env python3
# usage: gen_costs.py <log of final runs>   rewrites the measured-cost table in DESIGN.md section 10
import re,sys
rows={}
for l in open(sys.argv[1]):
    m=re.match(r'OK property=(C\d+) tier=(\w+) evaluations=(\d+) distinct=(\d+) exhaustive=(\w+) wall=([\d.]+)s',l)
    if m:
        rows.setdefault(m.group(1),{})[m.group(2)]=(int(m.group(3)),int(m.group(4)),m.group(5),float(m.group(6)))
def f(n): return f"{n/1e6:.1f} M" if n>=1e6 else f"{n/1e3:.0f} k"
out=["| property | quick evaluations | distinct | wall | thorough evaluations | distinct | exhaustive | wall |","|---|---|---|---|---|---|---|---|"]
for p in sorted(rows):
    q=rows[p].get('quick'); t=rows[p].get('thorough')
    out.append(f"| {p} | {f(q[0]) if q else '-'} | {f(q[1]) if q else '-'} | {q[3]:.0f} s | {f(t[0]) if t else '-'} | {f(t[1]) if t else '-'} | {t[2] if t else '-'} | {t[3]/60:.1f} min |" if q and t else f"| {p} | incomplete |")
tab="\n".join(out)
s=open('/verif/DESIGN.md').read()
b,e='<!-- COSTTABLE-BEGIN -->','<!-- COSTTABLE-END -->'
assert b in s and e in s
s=s[:s.index(b)+len(b)]+"\n"+tab+"\n"+s[s.index(e):]
open('/verif/DESIGN.md','w').write(s)
print(tab)

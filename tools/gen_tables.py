#!/usr/bin/env python3
"""Regenerates the seeded/mutant tables of DESIGN.md section 13 from seeded/*/meta.json and mutants/RESULTS.json."""
import json, glob, os, re
rows = ["| seeded change | breaks | needs | detected by (quick) |", "|---|---|---|---|"]
for d in sorted(glob.glob('/verif/seeded/*/')):
    m = json.load(open(d + 'meta.json'))
    det = ", ".join(m.get("detected_by_quick_checks", [])) or "**not detected**"
    if m.get("detected_by_thorough_only"):
        det += " (thorough only: %s)" % ", ".join(m["detected_by_thorough_only"])
    rows.append("| `%s` | %s | %s | %s |" % (os.path.basename(d.rstrip('/')), m["breaks_property"], m["needs_to_manifest"], det))
seed = "\n".join(rows)
mrows = ["| mutant | edit | suite | detected by |", "|---|---|---|---|"]
if os.path.exists('/verif/mutants/RESULTS.json'):
    for r in json.load(open('/verif/mutants/RESULTS.json')):
        mrows.append("| `%s` | %s | %s | %s |" % (r["name"], r["edit"], r["suite"], r["detected_by"]))
mut = "\n".join(mrows)
p = '/verif/DESIGN.md'
s = open(p).read()
def put(s, tag, body):
    b, e = "<!-- %s-BEGIN -->" % tag, "<!-- %s-END -->" % tag
    if b in s:
        return re.sub(re.escape(b) + ".*?" + re.escape(e), lambda _: b + "\n" + body + "\n" + e, s, flags=re.S)
    return s.replace(tag, b + "\n" + body + "\n" + e)
s = put(s, "SEEDTABLE", seed)
s = put(s, "MUTANTTABLE", mut)
open(p, 'w').write(s)
print("tables regenerated:", len(rows) - 2, "seeds,", len(mrows) - 2, "mutants")

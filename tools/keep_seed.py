#!/usr/bin/env python3
# usage: keep_seed.py <name> <seed dir> <property> <detected_by (comma list)> <needs> 
import sys, os, shutil, json, glob
name, src, prop, det, needs = sys.argv[1:6]
dst = f"/verif/seeded/{name}"
os.makedirs(dst, exist_ok=True)
shutil.copy(f"{src}/patch.diff", dst)
for f in glob.glob(f"{src}/*_test.go") + glob.glob(f"{src}/NOTES.md"):
    shutil.copy(f, dst)
meta = {
  "breaks_property": prop,
  "needs_to_manifest": needs,
  "origin": "independent sub-agent given only the property text and a scratch worktree",
  "confirmed": "tools/try_seed.sh: demo passes without the patch, fails with it; `go test -vet=off -count=1 ./...` passes with it; checks run on /repo with the patch applied, then reverted",
  "detected_by_quick_checks": [d for d in det.split(",") if d],
}
json.dump(meta, open(f"{dst}/meta.json", "w"), indent=1)
print("kept", dst)

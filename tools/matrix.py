#!/usr/bin/env python3
"""Detection matrix: for every kept seed, apply its patch to a scratch worktree of /repo HEAD and run
ALL quick checks against that worktree (VERIF_REPO), recording which ones report a violation.
Usage: tools/matrix.py [name-substring]   -> /verif/seeded/MATRIX.json (+ meta.json updated: detected_by_quick_checks)"""
import subprocess, json, os, sys, glob
ENV = dict(os.environ, GOFLAGS="-mod=mod", GOPROXY="off", GOSUMDB="off", GOTOOLCHAIN="local")
WT = "/tmp/wt-matrix"
ALL = ["C%02d" % i for i in range(1, 18)]
def sh(cmd, cwd=None, env=ENV):
    return subprocess.run(cmd, shell=True, cwd=cwd, env=env, capture_output=True, text=True, errors="replace")
sh("git -C /repo worktree remove --force %s; git -C /repo worktree prune" % WT)
r = sh("git -C /repo worktree add --detach %s HEAD" % WT)
assert r.returncode == 0, r.stderr
flt = sys.argv[1] if len(sys.argv) > 1 else ""
mf = "/verif/seeded/MATRIX.json"
matrix = json.load(open(mf)) if os.path.exists(mf) else {}
try:
    for d in sorted(glob.glob("/verif/seeded/*/")):
        name = os.path.basename(d.rstrip("/"))
        if flt not in name: continue
        sh("git reset -q --hard HEAD; git clean -fdq", WT)
        a = sh("git apply %spatch.diff || git apply --3way %spatch.diff" % (d, d), WT)
        if a.returncode != 0:
            print(name, "PATCH DOES NOT APPLY:", a.stderr[:200]); matrix[name] = {"error": "patch does not apply to HEAD"}; continue
        b = sh("go build ./...", WT)
        if b.returncode != 0:
            print(name, "does not build"); matrix[name] = {"error": "does not build"}; continue
        det, broken = [], []
        for c in ALL:
            r = sh("./check %s quick" % c, "/verif", dict(ENV, VERIF_REPO=WT, VERIF_NO_RACE="1", VERIF_NO_EVIDENCE="1"))
            if r.returncode == 1 and "VIOLATION property=%s" % c in r.stdout: det.append(c)
            elif r.returncode != 0: broken.append(c)
        matrix[name] = {"detected_by": det, "no_verdict": broken}
        print(name, "detected by", det, ("NO VERDICT: %s" % broken) if broken else "", flush=True)
        m = json.load(open(d + "meta.json")); m["detected_by_quick_checks"] = det
        if broken: m["checks_without_verdict"] = broken
        json.dump(m, open(d + "meta.json", "w"), indent=1)
        json.dump(matrix, open(mf, "w"), indent=1, sort_keys=True)
finally:
    sh("git -C /repo worktree remove --force %s; git -C /repo worktree prune" % WT)

#!/bin/bash
# usage: tools/prep_round.sh <R>   creates /tmp/wt<R>-Cxx worktrees of /repo HEAD and /tmp/seed<R>-Cxx/{PROPERTY,PROMPT}.txt
# (property text + anchors + one line per idea already used, taken from the names under seeded/; nothing else from /verif)
R="$1"
for p in C01 C02 C03 C04 C05 C06 C07 C08 C09 C10 C11 C12 C13 C14 C15 C16 C17; do
  git -C /repo worktree add --detach /tmp/wt$R-$p HEAD -q 2>&1 | tail -1
  mkdir -p /tmp/seed$R-$p
  python3 - "$p" "$R" <<'PY'
import json,sys,glob,os
p,R=sys.argv[1],sys.argv[2]
for l in open('/verif/properties.jsonl'):
    d=json.loads(l)
    if d['id']==p:
        a=d['anchors']
        txt=f"{d['id']}: {d['title']}\n\n{d['statement']}\n\nQuantifier: {d['quantifier']['text']}\n\nWhy tests cannot settle it: {d['why_tests_cant']}\n\nAnchor files: {', '.join(a.get('files',[]))}\n"
        for m in a.get('mechanism',[]) or []:
            txt+=f"  mechanism: {m['name']} ({m['where']})\n"
        for m in a.get('state',[]) or []:
            txt+=f"  state: {m['name']} - {m['meaning']} ({m['where']})\n"
        txt+=f"Observed at: {'; '.join(a.get('observe_at',[]))}\n"
used=[os.path.basename(x.rstrip('/')).split('-',1)[1].replace('-',' ') for x in sorted(glob.glob(f'/verif/seeded/{p}*/'))]
txt+="\nIdeas ALREADY USED by earlier seeded defects for this property (do NOT reuse these mechanisms or code sites; find a different one):\n"+"\n".join("- "+u for u in used)+"\n"
open(f'/tmp/seed{R}-{p}/PROPERTY.txt','w').write(txt)
PY
  sed "s/wt6-/wt$R-/g; s/seed6-/seed$R-/g; s/PID/$p/g" /verif/tools/seed_prompt_template.txt > /tmp/seed$R-$p/PROMPT.txt
done

#!/usr/bin/env python3
"""Applies each mutant to /repo (working tree), runs the repository suite and the named checks (quick), reverts.
Results -> /verif/mutants/RESULTS.json and /verif/mutants/<name>.diff. Usage: run_mutants.py [name-substring]"""
import subprocess, re, json, sys, os
ENV = dict(os.environ, GOFLAGS="-mod=mod", GOPROXY="off", GOSUMDB="off", GOTOOLCHAIN="local", VERIF_NO_EVIDENCE="1")
M = [
 ("C01-lookahead-off-by-one", "internal/escape/escape.go", r"if i\+ls <= len\(b\) && bytes\.Equal\(b\[i:i\+ls\], start\)", "if i+ls < len(b) && bytes.Equal(b[i:i+ls], start)", ["C01", "C10"], "start-marker look-ahead bound `<=` -> `<` (a marker at the very end of the buffer is not escaped)"),
 ("C02-float-b-verb-safe", "internal/rfmt/print.go", r"\tcase 'b', 'g', 'G', 'x', 'X':\n\t\tdefer p\.startUnsafe\(\)\.restore\(\)\n", "\tcase 'b', 'g', 'G', 'x', 'X':\n", ["C02", "C05"], "fmtFloat: the unsafe switch dropped for verbs b,g,G,x,X"),
 ("C02-integer-O-verb-safe", "internal/rfmt/print.go", r"\tcase 'o', 'O':\n\t\tdefer p\.startUnsafe\(\)\.restore\(\)\n", "\tcase 'o', 'O':\n", ["C02"], "fmtInteger: the unsafe switch dropped for %o/%O"),
 ("C03-finalize-no-line-split", "internal/buffer/buffer.go", r"func \(b \*Buffer\) finalize\(\) \{\n\tif b\.mode == SafeRaw \{\n\t\tb\.validUntil = len\(b\.buf\)\n\t\} else \{\n\t\tb\.escapeToEnd\(b\.mode == UnsafeEscaped", "func (b *Buffer) finalize() {\n\tif b.mode == SafeRaw {\n\t\tb.validUntil = len(b.buf)\n\t} else {\n\t\tb.escapeToEnd(false", ["C03", "C09"], "finalize never requests line splitting (SetMode still does)"),
 ("C04-sharp-padding-minus-one", "internal/rfmt/format.go", r"func \(f \*fmt\) writePadding\(n int\) \{\n", "func (f *fmt) writePadding(n int) {\n\tif f.sharp {\n\t\tn--\n\t}\n", ["C04"], "writePadding pads one less when the sharp flag is set"),
 ("C05-restore-omits-override", "internal/rfmt/helpers.go", r"\tr\.p\.buf\.SetMode\(r\.prevMode\)\n\tr\.p\.override = r\.prevOverride\n", "\tr.p.buf.SetMode(r.prevMode)\n", ["C05", "C06", "C12"], "restorer.restore() no longer restores the override"),
 ("C06-safe-override-unconditional", "internal/rfmt/helpers.go", r"func \(p \*pp\) startSafeOverride\(\) restorer \{\n\tprevMode := p\.buf\.GetMode\(\)\n\tprevOverride := p\.override\n\tif p\.override == noOverride \{", "func (p *pp) startSafeOverride() restorer {\n\tprevMode := p.buf.GetMode()\n\tprevOverride := p.override\n\tif true {", ["C06"], "startSafeOverride takes effect even under an active override"),
 ("C07-greedy-envelope-pattern", "internal/markers/constants.go", r'regexp\.MustCompile\(StartS \+ "\[\^" \+ StartS \+ EndS \+ "\]\*" \+ EndS\)', 'regexp.MustCompile(StartS + ".*" + EndS)', ["C07", "C02"], "Redact pattern made greedy"),
 ("C08-preredactable-escaped", "internal/rfmt/helpers.go", r"\tif p\.override != overrideUnsafe \{\n\t\tp\.buf\.SetMode\(b\.PreRedactable\)", "\tif p.override != overrideUnsafe {\n\t\tp.buf.SetMode(b.SafeEscaped)", ["C08", "C16"], "redactable operands copied in safe-escaped instead of raw mode"),
 ("C09-setmode-keeps-validuntil", "internal/buffer/buffer.go", r"\tif b\.markerOpen \{\n\t\tb\.endRedactable\(\)\n\t\}\n\tb\.validUntil = len\(b\.buf\)\n\tb\.mode = newMode", "\tif b.markerOpen {\n\t\tb.endRedactable()\n\t}\n\tb.mode = newMode", ["C09", "C01"], "SetMode no longer advances validUntil past the closing marker"),
 ("C10-end-marker-copy-from-short", "internal/escape/escape.go", r"\t\t\tk = i \+ le\n\t\t\ti \+= le - 1", "\t\t\tk = i + le - 1\n\t\t\ti += le - 1", ["C10", "C01"], "after an end marker the copy cursor restarts one byte early (the marker's last byte is copied); the variant `i += le - 2` is an equivalent mutant (0xBA cannot start a marker) and was dropped"),
 ("C11-invalid-rune-sized-1", "internal/buffer/buffer.go", r"\t\tl = utf8\.RuneLen\(utf8\.RuneError\)", "\t\tl = 1", ["C11"], "invalid rune sized as 1 byte (the repair of D1 replaced by shrinking)"),
 ("C12-nested-keeps-buf", "internal/rfmt/printer_adapter.go", r"\tnp\.doPrintf\(format, arg\)\n\tfinished = true\n\tp\.buf = np\.buf\n\tnp\.buf = buffer\{\}\n", "\tnp.doPrintf(format, arg)\n\tfinished = true\n\tp.buf = np.buf\n", ["C12"], "nested Printf recycles its printer while it still shares the parent's buffer"),
 ("C12-wrappederr-not-cleared", "internal/rfmt/print.go", r"\tp\.wrappedErr = nil\n\tppFree", "\tppFree", ["C12", "C15"], "free() no longer clears the wrapped-error slot"),
 ("C12-override-not-reset", "internal/rfmt/printer_adapter.go", r"\tnp\.buf = buffer\{\}\n\tnp\.override = noOverride\n\tnp\.free\(\)\n\}\n\n// keepNestedOutput", "\tnp.buf = buffer{}\n\tnp.free()\n}\n\n// keepNestedOutput", ["C12"], "nested Printf recycles its printer with the inherited override still set"),
 ("C12-scratch-hoisted", "internal/rfmt/format.go", r"type fmt struct \{\n\tbuf \*buffer\n", "var sharedIntbuf [68]byte\n\ntype fmt struct {\n\tbuf *buffer\n", ["C12"], "placeholder (see RESULTS note)"),
 ("C13-len-finalizes-receiver", "internal/buffer/buffer.go", r"\tcopy := \*b\n\tcopy\.finalize\(\)\n\treturn len\(copy\.buf\)", "\tb.finalize()\n\treturn len(b.buf)", ["C13"], "Len finalizes the receiver instead of a copy"),
 ("C14-hash-dropped-with-minus", "internal/fmtforward/make_format.go", r"\tif hash \{\n", "\tif hash && !minus {\n", ["C14"], "MakeFormat drops '#' when '-' is set"),
 ("C15-second-w-keeps-capture", "internal/rfmt/print.go", r"if !ok \|\| !p\.wrapErrs \|\| p\.wrappedErr != nil \{", "if !ok || !p.wrapErrs {", ["C15"], "a second %w overwrites instead of invalidating the capture"),
 ("C16-fprintf-two-writes", "internal/rfmt/print.go", r"\tp\.doPrintf\(format, a\)\n\tn, err = w\.Write\(\[\]byte\(p\.buf\.TakeRedactableBytes\(\)\)\)\n", "\tp.doPrintf(format, a)\n\tbs := []byte(p.buf.TakeRedactableBytes())\n\tn, err = w.Write(bs[:len(bs)/2])\n\tif err == nil {\n\t\tvar n2 int\n\t\tn2, err = w.Write(bs[len(bs)/2:])\n\t\tn += n2\n\t}\n", ["C16", "C04"], "Fprintf delivers the text in two Write calls"),
 ("C17-hook-below-formatter", "internal/rfmt/print.go", None, None, ["C17"], "error-hook case moved below the Formatter case"),
]

def sh(cmd, cwd=None):
    return subprocess.run(cmd, shell=True, cwd=cwd, env=ENV, capture_output=True, text=True, errors="replace")

def apply(name, path, frm, to):
    p = "/repo/" + path
    s = open(p).read()
    if name == "C17-hook-below-formatter":
        blk = re.search(r"\t\tcase error:\n\t\t\tif redactErrorFn != nil \{\n.*?\n\t\t\t\}\n", s, flags=re.S)
        if not blk: return False
        b = blk.group(0)
        s = s.replace(b, "")
        anchor = "\t// If we're doing Go syntax and the argument knows how to supply it, take care of it now.\n"
        new = "\tif p.override != overrideUnsafe {\n\t\tswitch v := p.arg.(type) {\n" + b + "\t\t}\n\t}\n\n"
        if anchor not in s: return False
        s = s.replace(anchor, new + anchor)
        open(p, "w").write(s); return True
    if name == "C12-scratch-hoisted":
        # hoist the per-printer integer scratch buffer to package scope
        s2 = s.replace("\tintbuf [68]byte\n", "")
        s2 = re.sub(frm, to, s2, count=1, flags=re.S)
        s2 = s2.replace("f.intbuf", "sharedIntbuf")
        if s2 == s: return False
        open(p, "w").write(s2); return True
    if not re.search(frm, s, flags=re.S): return False
    s = re.sub(frm, lambda m: to, s, count=1, flags=re.S)
    open(p, "w").write(s); return True

flt = sys.argv[1] if len(sys.argv) > 1 else ""
resf = "/verif/mutants/RESULTS.json"
results = {r["name"]: r for r in (json.load(open(resf)) if os.path.exists(resf) else [])}
for name, path, frm, to, checks, edit in M:
    if flt not in name: continue
    sh("git checkout -q -- .", "/repo")
    if not apply(name, path, frm, to):
        print(name, "PATTERN NOT FOUND"); continue
    open("/verif/mutants/%s.diff" % name, "w").write(sh("git diff", "/repo").stdout)
    b = sh("go build ./...", "/repo")
    if b.returncode != 0:
        print(name, "DOES NOT BUILD", b.stderr[:300]); sh("git checkout -q -- .", "/repo"); continue
    t = sh("go test -vet=off -count=1 ./...", "/repo")
    suite = "passes" if t.returncode == 0 else "FAILS (" + ";".join(re.findall(r"--- FAIL: (\S+)", t.stdout)[:3]) + ")"
    det = []
    for c in checks:
        r = sh("./check %s quick" % c, "/verif")
        first = ""
        m = re.search(r"^  section=.*$", r.stdout, flags=re.M)
        if m: first = m.group(0).strip()[:260]
        if r.returncode == 1 and "VIOLATION property=%s" % c in r.stdout:
            det.append(c)
            print("  %s detects %s: %s" % (c, name, first))
        else:
            print("  %s does NOT detect %s (exit %d)" % (c, name, r.returncode))
    sh("git checkout -q -- .", "/repo")
    results[name] = {"name": name, "edit": edit + " (`%s`)" % path, "suite": suite, "detected_by": ", ".join(det) if det else "**not detected**", "checks_run": checks}
    json.dump(sorted(results.values(), key=lambda r: r["name"]), open(resf, "w"), indent=1)
print(sh("git status --short", "/repo").stdout)

#!/bin/bash
# usage: tools/try_mutant.sh <name> <file> <python-regex-from> <to> <checks...>   (edits /repo in place, runs suite + checks, reverts)
export GOFLAGS=-mod=mod GOPROXY=off GOSUMDB=off GOTOOLCHAIN=local
NAME="$1"; FILE="$2"; FROM="$3"; TO="$4"; shift 4
cd /repo || exit 2
python3 - "$FILE" "$FROM" "$TO" <<'PY'
import sys,re
p,frm,to=sys.argv[1:4]
s=open(p).read()
n=len(re.findall(frm,s,flags=re.S))
if n<1: print("PATTERN NOT FOUND"); sys.exit(3)
s=re.sub(frm,to,s,count=1,flags=re.S)
open(p,'w').write(s)
PY
[ $? -eq 0 ] || { git checkout -q -- .; exit 3; }
git diff > /verif/mutants/$NAME.diff
echo "== $NAME: suite"; go test -vet=off -count=1 ./... 2>&1 | grep -v "no test files" | grep -v "^ok" | head -5
cd /verif
for c in "$@"; do ./check $c ${TIER:-quick} 2>&1 | grep -E "^(VIOLATION|OK|BUILD)" | head -2 | cut -c1-300; ./check $c ${TIER:-quick} 2>&1 | grep -A1 "^VIOLATION" | grep section | head -1 | cut -c1-600; done
git -C /repo checkout -q -- .

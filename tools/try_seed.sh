#!/bin/bash
# usage: tools/try_seed.sh <seed dir with patch.diff + *_test.go> <scratch worktree> <demo -run regex> <check ids...>
# 1. confirms in the scratch worktree: demo passes without the patch, fails with it, suite passes with it
# 2. applies the patch to /repo, runs the given checks (quick), and reverts /repo
export GOFLAGS=-mod=mod GOPROXY=off GOSUMDB=off GOTOOLCHAIN=local VERIF_NO_EVIDENCE=1
SEED="$1"; WT="$2"; RUNRE="$3"; shift 3
DEMO=$(ls "$SEED"/*_test.go | head -1)
DEMOPKG="${DEMO_PKG:-.}"
cd "$WT" || exit 2
git checkout -q -- . ; git clean -fdq
cp "$DEMO" "$WT/$DEMOPKG/"
echo "== demo without patch (must pass)"; (cd "$WT/$DEMOPKG" && go test -vet=off -count=1 -run "$RUNRE" . 2>&1 | tail -3)
git apply "$SEED/patch.diff" || { echo "PATCH DOES NOT APPLY"; exit 2; }
echo "== demo with patch (must fail)"; (cd "$WT/$DEMOPKG" && go test -vet=off -count=1 -run "$RUNRE" . 2>&1 | tail -5)
rm -f "$WT/$DEMOPKG/$(basename "$DEMO")"
echo "== suite with patch (must pass)"; go test -vet=off -count=1 ./... 2>&1 | grep -v "no test files" | tail -7
git checkout -q -- . ; git clean -fdq
cd /verif
git -C /repo apply "$SEED/patch.diff" 2>/dev/null || git -C /repo apply --3way "$SEED/patch.diff" || { echo "PATCH DOES NOT APPLY TO /repo"; git -C /repo reset -q --hard HEAD; exit 2; }
for c in "$@"; do
  echo "== check $c on patched /repo"
  ./check $c ${TIER:-quick} 2>&1 | grep -E "^(VIOLATION|OK|KNOWN|BUILD|  section)" | head -6
done
git -C /repo reset -q --hard HEAD
git -C /repo status --short | head -3
